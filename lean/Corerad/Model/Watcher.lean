/-
  Model of the link-state publish/subscribe core in internal/netstate/watcher.go (C19):
    (*Watcher).Subscribe — a buffered channel registered for (interface, mask)
    (*Watcher).notify    — mask intersection, non-blocking send per subscriber channel
    (*Watcher).Watch     — on return, the deferred func closes every registered channel

  The `changeMap` (interface -> mask -> []chan) is modelled as the list of subscribers in
  registration order; every subscriber owns one channel.  Go's map iteration order decides only
  in which order *different* channels are visited for one change; what one channel receives is
  determined by the order of `changes` for its interface alone, so the list order is irrelevant
  to the observable (DESIGN §3, "Go maps as association lists").

  A channel is its FIFO content (`buf`, oldest first) and the number of `close` calls made on it
  (`closes`; Go panics on the second one, the theorems show the count never exceeds one on
  well-formed histories).  Capacity is the regenerated `Gen.Netstate.subscriberBuf`.

  Core Lean only: linked into `vfdriver`.
-/
import Corerad.Basic
import Corerad.Gen.Netstate

namespace Corerad.Model.Watcher

open Corerad

/-- one `Subscribe(iface, mask)` call and the channel it returned -/
structure Sub where
  iface : Nat
  mask : Nat
  /-- pending changes, oldest first -/
  buf : List Nat := []
  /-- how many times `close(ch)` ran on the channel -/
  closes : Nat := 0
deriving DecidableEq, Repr, Inhabited

/-- the channel is closed (a receive on the empty channel yields `ok = false`) -/
def Sub.closed (s : Sub) : Bool := decide (0 < s.closes)

abbrev State := List Sub

/-- `make(chan Change, N)` in Subscribe -/
def cap : Nat := Gen.Netstate.subscriberBuf

/-- the operations of a history -/
inductive Op where
  /-- `w.Subscribe(iface, mask)`; the new subscriber's id is the number of earlier subscribers -/
  | subscribe (iface mask : Nat)
  /-- one call of `notify(changeSet)`: per interface the list of changes, in order -/
  | notify (cs : List (Nat × List Nat))
  /-- the owner of subscriber `id` makes up to `n` non-blocking receives -/
  | drain (id n : Nat)
  /-- the watch hook returns: `Watch`'s deferred func runs -/
  | endWatch
deriving DecidableEq, Repr, Inhabited

/-- what one `drain` observed: the values received and whether a receive reported "closed" -/
structure Obs where
  got : List Nat
  closed : Bool
deriving DecidableEq, Repr, Inhabited

/-- `Subscribe`: `w.m[iface][changes] = append(w.m[iface][changes], changeC)` -/
def subscribe (st : State) (iface mask : Nat) : State :=
  st ++ [{ iface := iface, mask := mask }]

/-- the body of `notify` for one change on `iface`, as seen by one subscriber channel:
    `interest, ok := w.m[iface]` (other interfaces are not visited), `if k&change == 0
    { continue }`, then `select { case ch <- change: default: }` — the send succeeds iff the
    buffer has room. -/
def deliver (iface c : Nat) (s : Sub) : Sub :=
  if s.iface ≠ iface then s
  else if s.mask &&& c = 0 then s
  else if s.buf.length < cap then { s with buf := s.buf ++ [c] }
  else s

/-- `for k, v := range interest { … for _, ch := range v { … } }` for one change -/
def notifyChange (iface : Nat) (st : State) (c : Nat) : State := st.map (deliver iface c)

/-- `for _, change := range changes` for one interface of the change set -/
def notifyIface (st : State) (e : Nat × List Nat) : State := e.2.foldl (notifyChange e.1) st

/-- `for iface, changes := range changed` -/
def notify (st : State) (cs : List (Nat × List Nat)) : State := cs.foldl notifyIface st

/-- up to `n` non-blocking receives: the first `n` buffered values; "closed" is seen only when a
    receive is attempted on the empty closed channel. -/
def drainSub (n : Nat) (s : Sub) : Sub × Obs :=
  ({ s with buf := s.buf.drop n },
   { got := s.buf.take n, closed := s.closed && decide (s.buf.length < n) })

def drain (st : State) (id n : Nat) : State × Obs :=
  match st[id]? with
  | none => (st, { got := [], closed := false })
  | some s => (st.set id (drainSub n s).1, (drainSub n s).2)

/-- the deferred func of `Watch`: `close(ch)` for every registered channel -/
def endWatch (st : State) : State := st.map fun s => { s with closes := s.closes + 1 }

def step (st : State) : Op → State × List Obs
  | .subscribe i m => (subscribe st i m, [])
  | .notify cs => (notify st cs, [])
  | .drain id n => ((drain st id n).1, [(drain st id n).2])
  | .endWatch => (endWatch st, [])

/-- run a history; the observations of its `drain` operations in order -/
def run (st : State) : List Op → State × List Obs
  | [] => (st, [])
  | op :: ops => ((run (step st op).1 ops).1, (step st op).2 ++ (run (step st op).1 ops).2)

/-- the final observation: everything still buffered, and closed-ness, per subscriber -/
def finals (st : State) : List Obs := st.map fun s => { got := s.buf, closed := s.closed }

/-- Histories the API admits: `notify` exists only while the watch hook runs and `Watch` is
    single-use, so after `endWatch` there is neither a `notify` nor a second `endWatch`
    (in Go: send on a closed channel / "multiple calls to Watcher.Watch" — both panics). -/
def wf : (ended : Bool) → List Op → Bool
  | _, [] => true
  | e, .notify _ :: ops => !e && wf e ops
  | e, .endWatch :: ops => !e && wf true ops
  | e, .subscribe _ _ :: ops => wf e ops
  | e, .drain _ _ :: ops => wf e ops

/-- `Watch`'s single-use guard: `if v := atomic.SwapUint32(w.watching, 1); v != 0 { panic(…) }`;
    returns the new flag and whether this call panics -/
def watchGuard (watching : Bool) : Bool × Bool := (true, watching)

/-- `n` successive calls of `Watch` on one Watcher: which of them panic -/
def watchCalls : (watching : Bool) → Nat → List Bool
  | _, 0 => []
  | w, n + 1 => (watchGuard w).2 :: watchCalls (watchGuard w).1 n

end Corerad.Model.Watcher
