/-
  Model of deprecated prefix/route lifetimes (internal/plugin/plugin.go:
  `(*Prefix).lifetimes`, `(*Route).lifetime`): the `Equal / After / Sub` chain on one
  non-decreasing clock, all instants as `Int` nanoseconds.
-/
import Corerad.Basic

namespace Corerad.Model

open Corerad

/-- `if now.Equal(dl) || now.After(dl) { 0 } else { dl.Sub(now) }` with `dl = epoch.Add(L)`. -/
def lifetimeAt (epoch : Time) (L : Dur) (now : Time) : Dur :=
  let dl := epoch + L
  if now = dl ∨ now > dl then 0 else dl - now

/-- `(*Prefix).lifetimes()` → (valid, preferred). -/
def prefixLifetimes (deprecated : Bool) (epoch : Time) (valid pref : Dur) (now : Time) : Dur × Dur :=
  if !deprecated then (valid, pref)
  else (lifetimeAt epoch valid now, lifetimeAt epoch pref now)

/-- `(*Route).lifetime()`. -/
def routeLifetime (deprecated : Bool) (epoch : Time) (lt : Dur) (now : Time) : Dur :=
  if !deprecated then lt else lifetimeAt epoch lt now

end Corerad.Model
