/-
  Model of server supervision in internal/corerad/server.go and signals_unix.go (C20):

    (*Server).BuildTasks — one Task per advertising / monitoring interface in configuration order
                           (none for an interface that does neither), then the debug HTTP task iff
                           an address is configured, then the link watcher task iff the server has
                           a watcher
    (*Server).Serve      — errgroup with a shared context, a readiness WaitGroup, and the signal
                           task appended to the caller's tasks
    (*signalTask).Run    — select { ctx.Done | sig := <-sigC }; t.t.set(sig); Notify(Stopping);
                           t.cancel()
    (*terminator).set / terminate, isTerminal

  `Serve` is a labelled transition system over control states (DESIGN §3 "Concurrency", Appendix
  B.3), not over the Go memory model.  One transition = one of the atomic steps named below; the
  behaviour of a task ("runs until cancelled", "fails at some instant", "returns nil early", "slow
  to stop", "never ready", "returns an error during shutdown") is not stored in the state: it is
  the environment's free choice of which of the enabled task events happens next, so the
  theorems, which quantify over every trace, quantify over every behaviour.

  The order of the three effects of `signalTask.Run` is NOT written here: it is read from the
  regenerated facts `Gen.Server.signalSetBeforeCancel` / `signalNotifyBeforeCancel`, so moving
  `t.cancel()` in the Go source changes this transition system (and the theorems of Props/C20
  that need the order stop checking).

  Go library semantics modelled, not verified (validated by the correspondence check):
    errgroup v0.6.0 — `Go(f)`: the first non-nil error is stored under a `sync.Once` and the
      group's context is cancelled at that moment; `Wait` returns that error after every `f`
      returned.
    context — the context handed to the tasks is a child of the group's context: it is done as soon
      as either the group's context is cancelled (first error) or `cancel()` is called.
    A buffered `sigC` of capacity 1 (cmd/corerad/main.go): a signal that arrives while one is still
      pending is dropped by `signal.Notify`.

  Core Lean only: linked into `vfdriver`.
-/
import Corerad.Basic
import Corerad.Gen.Server

namespace Corerad.Model.Server

open Corerad

/-! ## BuildTasks -/

/-- what `cfg.Interfaces[i]` asks for (`Advertise` and `Monitor` are mutually exclusive in an
    accepted configuration; `neither` is `!ifi.Advertise && !ifi.Monitor`) -/
inductive IfaceKind where
  | adv | mon | neither
deriving DecidableEq, Repr, Inhabited

/-- the dynamic type of a built Task; for the per-interface tasks the index of the interface in
    `cfg.Interfaces` -/
inductive TaskKind where
  | advertiser (i : Nat)
  | monitor (i : Nat)
  | http
  | watcher
deriving DecidableEq, Repr, Inhabited

/-- `for _, ifi := range cfg.Interfaces { … }`, `i` = index of the head of the list -/
def ifaceTasks : Nat → List IfaceKind → List TaskKind
  | _, [] => []
  | i, .adv :: r => .advertiser i :: ifaceTasks (i + 1) r
  | i, .mon :: r => .monitor i :: ifaceTasks (i + 1) r
  | i, .neither :: r => ifaceTasks (i + 1) r

/-- `BuildTasks(cfg, debug)`: `debugAddrSet` is `cfg.Debug.Address != ""`, `watcherPresent` is
    `s.w != nil` -/
def buildTasks (ifs : List IfaceKind) (debugAddrSet watcherPresent : Bool) : List TaskKind :=
  ifaceTasks 0 ifs ++ (if debugAddrSet then [.http] else []) ++ (if watcherPresent then [.watcher] else [])

/-! ## Signals -/

/-- `Signals()`: SIGHUP, SIGTERM, os.Interrupt -/
inductive Sig where
  | hup | term | int
deriving DecidableEq, Repr, Inhabited

/-- `isTerminal`: `return s != syscall.SIGHUP` (tied by `Props.C20.gen_isTerminalExpr`) -/
def isTerminal (s : Sig) : Bool := decide (s ≠ .hup)

/-- `signalTask.Run`: does `t.t.set(sig)` precede `t.cancel()` (regenerated) -/
def setFirst : Bool := Gen.Server.signalSetBeforeCancel
/-- `signalTask.Run`: does `Notify(Stopping)` precede `t.cancel()` (regenerated) -/
def notifyFirst : Bool := Gen.Server.signalNotifyBeforeCancel

/-! ## The transition system of `Serve` -/

/-- program counter of one caller-supplied task's `Run` -/
inductive Pc where
  /-- `eg.Go` has not yet entered `t.Run(ctx)` -/
  | notStarted
  | running
  /-- the task has seen `ctx.Done()` (and read `terminate()`); it has not returned yet -/
  | sawCancel
  /-- `Run` returned: `err = true` for a non-nil error -/
  | returned (err : Bool)
deriving DecidableEq, Repr, Inhabited

structure Task where
  pc : Pc := .notStarted
  /-- `Ready()` has been closed -/
  ready : Bool := false
deriving DecidableEq, Repr, Inhabited

/-- program counter of `signalTask.Run` -/
inductive SigPc where
  /-- in the `select` -/
  | waiting
  /-- `sig = <-t.sigC` happened; which of the three effects have run -/
  | got (s : Sig) (didSet didNotify didCancel : Bool)
  | returned
deriving DecidableEq, Repr, Inhabited

structure State where
  tasks : List Task
  /-- the context handed to the tasks is done -/
  ctxDone : Bool := false
  /-- `eg.err`: index of the task whose error was recorded by `errOnce` -/
  firstErr : Option Nat := none
  /-- `terminator.term`; `none` = never set (reads as `false`) -/
  term : Option Bool := none
  /-- a signal sitting in `sigC` -/
  pending : Option Sig := none
  sigPc : SigPc := .waiting
  /-- the `wg.Wait()` goroutine sent READY=1 -/
  readyAnnounced : Bool := false
  /-- `Serve` returned this value (`some k` = "failed to serve: failed to run task k") -/
  served : Option (Option Nat) := none
deriving DecidableEq, Repr, Inhabited

inductive Event where
  /-- `t.Run(ctx)` is entered for task `k` -/
  | start (k : Nat)
  /-- task `k` closes its `Ready()` channel -/
  | ready (k : Nat)
  /-- task `k`, still running normally, returns a non-nil error -/
  | fail (k : Nat)
  /-- task `k`, still running normally, returns nil without having been cancelled -/
  | earlyNil (k : Nat)
  /-- the environment delivers a signal on `sigC` -/
  | signal (s : Sig)
  /-- internal: the signal task's `select` takes `sig = <-t.sigC` -/
  | recvSig
  /-- internal: `t.t.set(sig)` -/
  | setTerm
  /-- `t.n.Notify(…, sdnotify.Stopping)` -/
  | notifyStopping
  /-- internal: `t.cancel()` -/
  | cancel
  /-- internal: `signalTask.Run` returns -/
  | sigReturn
  /-- task `k` sees `ctx.Done()` and reads `terminate()`, which yields `b` -/
  | observeCancel (k : Nat) (b : Bool)
  /-- task `k`, having seen the cancellation, returns (`err = true`: a non-nil error) -/
  | ret (k : Nat) (err : Bool)
  /-- the `wg.Wait()` goroutine sends READY=1 -/
  | announceReady
  /-- `Serve` returns `e` (`none` = nil, `some k` = the error of task `k`) -/
  | serveReturn (e : Option Nat)
deriving DecidableEq, Repr, Inhabited

/-- events the harness can see from outside; the others are τ-steps -/
def Event.observable : Event → Bool
  | .recvSig | .setTerm | .cancel | .sigReturn => false
  | _ => true

def setPc (st : State) (k : Nat) (t : Task) (pc : Pc) : State :=
  { st with tasks := st.tasks.set k { t with pc := pc } }

/-- `terminate()` -/
def State.terminate (st : State) : Bool := st.term.getD false

def allReady (st : State) : Bool := st.tasks.all (·.ready)

def Pc.isReturned : Pc → Bool
  | .returned _ => true
  | _ => false

def allReturned (st : State) : Bool := st.tasks.all (·.pc.isReturned)

/-- one atomic step; `none` when the event is not enabled -/
def step? (st : State) : Event → Option State
  | .start k =>
    match st.tasks[k]? with
    | some t => if t.pc = .notStarted then some (setPc st k t .running) else none
    | none => none
  | .ready k =>
    match st.tasks[k]? with
    | some t =>
      if t.pc = .running ∧ t.ready = false then
        some { st with tasks := st.tasks.set k { t with ready := true } }
      else none
    | none => none
  | .fail k =>
    -- `return fmt.Errorf("failed to run task …")` inside eg.Go: errOnce stores the first error
    -- and cancels the group's context
    match st.tasks[k]? with
    | some t =>
      if t.pc = .running then
        some { setPc st k t (.returned true) with ctxDone := true, firstErr := st.firstErr.or (some k) }
      else none
    | none => none
  | .earlyNil k =>
    match st.tasks[k]? with
    | some t => if t.pc = .running then some (setPc st k t (.returned false)) else none
    | none => none
  | .signal s =>
    some { st with pending := st.pending.or (some s) }
  | .recvSig =>
    match st.sigPc, st.pending with
    | .waiting, some s => some { st with sigPc := .got s false false false, pending := none }
    | _, _ => none
  | .setTerm =>
    match st.sigPc with
    | .got s false n c =>
      if setFirst = true ∨ c = true then
        some { st with sigPc := .got s true n c, term := some (isTerminal s) }
      else none
    | _ => none
  | .notifyStopping =>
    match st.sigPc with
    | .got s d false c =>
      if notifyFirst = true ∨ c = true then some { st with sigPc := .got s d true c } else none
    | _ => none
  | .cancel =>
    match st.sigPc with
    | .got s d n false =>
      if (setFirst = true → d = true) ∧ (notifyFirst = true → n = true) then
        some { st with sigPc := .got s d n true, ctxDone := true }
      else none
    | _ => none
  | .sigReturn =>
    match st.sigPc with
    | .waiting => if st.ctxDone = true then some { st with sigPc := .returned } else none
    | .got _ true true true => some { st with sigPc := .returned }
    | _ => none
  | .observeCancel k b =>
    match st.tasks[k]? with
    | some t =>
      if t.pc = .running ∧ st.ctxDone = true ∧ b = st.terminate then some (setPc st k t .sawCancel)
      else none
    | none => none
  | .ret k err =>
    match st.tasks[k]? with
    | some t =>
      if t.pc = .sawCancel then
        some { setPc st k t (.returned err) with
               firstErr := if err then st.firstErr.or (some k) else st.firstErr }
      else none
    | none => none
  | .announceReady =>
    -- the signal task's `Ready()` is closed from the start, so only the caller's tasks count
    if st.readyAnnounced = false ∧ allReady st = true then some { st with readyAnnounced := true }
    else none
  | .serveReturn e =>
    -- `eg.Wait()`: every task function returned, the signal task included
    if st.served = none ∧ allReturned st = true ∧ st.sigPc = .returned ∧ e = st.firstErr then
      some { st with served := some e }
    else none

/-- `Serve(sigC, n, tasks)` with `n` caller tasks, before anything ran -/
def init (n : Nat) : State := { tasks := List.replicate n {} }

def run? (st : State) : List Event → Option State
  | [] => some st
  | e :: es =>
    match step? st e with
    | some st' => run? st' es
    | none => none

/-- a complete trace (internal events included) of `Serve` with `n` tasks -/
def accepts (n : Nat) (tr : List Event) : Bool := (run? (init n) tr).isSome

/-! ### observed traces: τ-closure

  The harness sees every event but the four internal ones of the signal task.  A set of candidate
  states is kept; before every observed event (and at the end) it is closed under the internal
  events.  The signal task makes at most four internal steps in a whole run, so four rounds reach
  the fixed point. -/

def taus : List Event := [.recvSig, .setTerm, .cancel, .sigReturn]

def tauRound (ss : List State) : List State :=
  (ss ++ ss.flatMap fun s => taus.filterMap (step? s)).eraseDups

def tauClose (ss : List State) : List State := tauRound (tauRound (tauRound (tauRound ss)))

def obsStep (ss : List State) (e : Event) : List State :=
  ((tauClose ss).filterMap fun s => step? s e).eraseDups

/-- index of the first observed event no candidate state can take, or `none` if the whole
    observed trace is the projection of some trace of the transition system -/
def rejectedAt : List State → Nat → List Event → Option Nat
  | _, _, [] => none
  | ss, i, e :: es =>
    match obsStep ss e with
    | [] => some i
    | ss' => rejectedAt ss' (i + 1) es

def acceptsObs (n : Nat) (obs : List Event) : Bool :=
  obs.all Event.observable && (rejectedAt [init n] 0 obs).isNone

/-! ## Timed scenarios (what the harness scripts): the predicted outcome

  A scenario fixes, per task, what it would do on its own and when (virtual instants measured
  from the call of `Serve`), and at most one signal.  `outcome` is what `Serve` must then do.
  The scenario is deterministic when no two of its decisive instants coincide (the generator
  guarantees it); the prediction resolves a coincidence of a failure and a signal in favour of
  the failure. -/

structure TaskB where
  /-- 0: runs until cancelled, 1: fails at `exitAt`, 2: returns nil at `exitAt` -/
  exit : Nat
  exitAt : Nat
  /-- returns a non-nil error after having seen the cancellation (breaks the Task contract) -/
  onCancelErr : Bool
  /-- time between seeing the cancellation and returning -/
  slow : Nat
  /-- closes `Ready()` at this instant if still running normally; `none` = never ready -/
  readyAt : Option Nat
deriving DecidableEq, Repr, Inhabited

structure Scenario where
  tasks : List TaskB
  sig : Option (Sig × Nat)
deriving DecidableEq, Repr, Inhabited

/-- what one task does in a scenario -/
structure TaskOut where
  /-- `some b`: saw the cancellation and `terminate()` was `b`; `none`: returned on its own or
      is still running -/
  saw : Option Bool
  /-- instant of return -/
  retAt : Option Nat
  /-- returned a non-nil error -/
  err : Bool
  becameReady : Bool
deriving DecidableEq, Repr, Inhabited

structure Outcome where
  /-- `none`: `Serve` never returns; `some none`: nil; `some (some k)`: task `k`'s error -/
  ret : Option (Option Nat)
  tasks : List TaskOut
  readyAnnounced : Bool
deriving DecidableEq, Repr, Inhabited

/-- the earliest `exitAt` among the tasks that fail -/
def firstFailAt (ts : List TaskB) : Option Nat :=
  ts.foldl (fun acc t => if t.exit = 1 then
      match acc with
      | none => some t.exitAt
      | some a => some (min a t.exitAt)
    else acc) none

/-- the instant at which the tasks' context is done, and the signal that caused it (`none`: a
    failure did) -/
def cancelAt (sc : Scenario) : Option (Nat × Option Sig) :=
  match firstFailAt sc.tasks, sc.sig with
  | none, none => none
  | some f, none => some (f, none)
  | none, some (s, t) => some (t, some s)
  | some f, some (s, t) => if t < f then some (t, some s) else some (f, none)

def taskOut (c : Option (Nat × Option Sig)) (t : TaskB) : TaskOut :=
  let exits : Bool := t.exit != 0 &&
    (t.exitAt == 0 || match c with
      | none => true
      | some (ct, cause) => t.exitAt < ct || (t.exit == 1 && t.exitAt == ct && cause.isNone))
  if exits then
    { saw := none, retAt := some t.exitAt, err := t.exit == 1,
      becameReady := match t.readyAt with
        | some r => r < t.exitAt
        | none => false }
  else match c with
    | none =>
      { saw := none, retAt := none, err := false, becameReady := t.readyAt.isSome }
    | some (ct, cause) =>
      { saw := some (match cause with
          | some s => isTerminal s
          | none => false),
        retAt := some (ct + t.slow), err := t.onCancelErr,
        becameReady := match t.readyAt with
          | some r => r < ct
          | none => false }

/-- index of the task with the earliest error; at the instant of the cancellation the failure
    that caused it comes before any return that follows it -/
def firstErrTask (os : List TaskOut) : Option Nat :=
  (os.zipIdx.foldl (fun (acc : Option (Nat × Nat)) p =>
      match p.1.err, p.1.retAt with
      | true, some a =>
        let key := 2 * a + (if p.1.saw.isSome then 1 else 0)
        (match acc with
         | none => some (key, p.2)
         | some b => if key < b.1 then some (key, p.2) else acc)
      | _, _ => acc) none).map (·.2)

def outcome (sc : Scenario) : Outcome :=
  let c := cancelAt sc
  let os := sc.tasks.map (taskOut c)
  { ret := if c.isSome then some (firstErrTask os) else none,
    tasks := os,
    readyAnnounced := os.all (·.becameReady) }

end Corerad.Model.Server
