/-
  Model of `multicastDelay` and of the multicast loop (internal/corerad/advertise.go).
  The random draw `r.Int63n(max-min)` is an explicit input.
-/
import Corerad.Basic
import Corerad.Gen.Advertise

namespace Corerad.Model

open Corerad

/-- `multicastDelay(r, i, min, max)` with `draw = r.Int63n(max.Nanoseconds()-min.Nanoseconds())`
    (only evaluated when `min ≠ max`). -/
def multicastDelay (draw : Int) (i : Nat) (min max : Dur) : Dur :=
  let d := if min = max then roundDur max second else roundDur (min + draw) second
  if (i : Int) < Gen.Advertise.maxInitialAdv ∧ d > Gen.Advertise.maxInitialAdvInterval then
    Gen.Advertise.maxInitialAdvInterval
  else d

/-- Instant (relative to the start of the loop) at which the `n`-th multicast request is issued
    by `(*Advertiser).multicast`: request 0 at once, then one after each wait. -/
def requestTime (draws : Nat → Int) (min max : Dur) : Nat → Dur
  | 0 => 0
  | n+1 => requestTime draws min max n + multicastDelay (draws n) n min max

end Corerad.Model
