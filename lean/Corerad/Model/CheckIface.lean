/-
  Model of the OS glue in internal/system/conn.go (C10, dialer part):
    checkInterface(ifi, addrFunc)  — is the interface ready for an NDP listener
    lookupInterface(iface)         — classification of `net.InterfaceByName`'s error
    isNoSuchInterface(err)         — package net's "no such network interface" error

  Inputs are what the functions look at and nothing more:
    up         `ifi.Flags&net.FlagUp != 0`
    addrs      the result of `addrFunc()`: a failure kind, or the list of `net.Addr`; of each
               entry: is it a `*net.IPNet` (the type assertion), and `netip.AddrFromSlice(a.IP)`
               — `IP.zero` (valid = false) when the slice is neither 4 nor 16 bytes long, a v4
               address for a 4-byte slice, a v6 address (possibly IPv4-mapped) for a 16-byte one

  The result is the class of the returned error as `Dialer.init` tells classes apart — the
  `DialOut` of Model/Dialer.lean — plus whether the error wraps `addrFunc`'s own error (`%w`).

  `codeExcludes4In6` records how the source tests an address (regenerated from conn.go on
  every run: `Gen.Dialer.checkExcludes4In6`).  The pinned tree had
      `ok && ip.Is6() && ip.IsLinkLocalUnicast()`
  and `netip.Addr.Is6` is true for an IPv4-mapped IPv6 address, which `IsLinkLocalUnicast`
  unmaps: the 16-byte form of 169.254.0.0/16 — the form in which `net.Interface.Addrs` reports
  every IPv4 address — passes for an "IPv6 link-local unicast address" (finding
  `v4mapped-link-local`, F-16, see Spec/C10Check.lean; repaired in /repo by also requiring
  `!ip.Is4In6()`).  The theorems of Props/C10Check.lean are stated for both values.

  Core Lean only: linked into `vfdriver`.
-/
import Corerad.Basic
import Corerad.Model.Dialer
import Corerad.Gen.Dialer

namespace Corerad.Model.CheckIface

open Corerad Corerad.Model.Dialer

/-- does the address test of `checkInterface` exclude IPv4-mapped addresses (`!ip.Is4In6()`) -/
def codeExcludes4In6 : Bool := Gen.Dialer.checkExcludes4In6

/-- how `addrFunc` failed: the class of its error, as `Dialer.init` tells classes apart -/
inductive AddrFail where
  /-- an `*os.SyscallError` that is not a permission error -/
  | syscall
  /-- an `*os.SyscallError` wrapping `os.ErrPermission` -/
  | permission
  /-- anything else -/
  | other
deriving DecidableEq, Repr, Inhabited

/-- one `net.Addr` of the list -/
structure NetAddr where
  /-- `a.(*net.IPNet)` succeeds (otherwise e.g. `*net.IPAddr`) -/
  isIPNet : Bool
  /-- `netip.AddrFromSlice(a.IP)`; `valid = false` ⇔ `!ok` -/
  ip : IP
deriving DecidableEq, Repr, Inhabited

structure Iface where
  up : Bool
  addrs : Except AddrFail (List NetAddr)

instance : Repr Iface := ⟨fun i _ => repr i.up⟩

/-- what `checkInterface` returned -/
structure Res where
  /-- class of the error (`.ok` = nil) -/
  out : DialOut
  /-- `errors.Is(err, <the error addrFunc returned>)` -/
  wrapsAddrErr : Bool := false
deriving DecidableEq, Repr, Inhabited

/-- `ok && ip.Is6() && ip.IsLinkLocalUnicast()` (and `&& !ip.Is4In6()` when `strict`) -/
def addrTest (strict : Bool) (ip : IP) : Bool :=
  ip.valid && ip.is6 && ip.isLinkLocalUnicast && !(strict && ip.is4In6)

/-- the body of the loop: `a, ok := a.(*net.IPNet); if !ok { continue }`, then the test -/
def entryMatches (strict : Bool) (a : NetAddr) : Bool := a.isIPNet && addrTest strict a.ip

def AddrFail.out : AddrFail → DialOut
  | .syscall => .syscall
  | .permission => .permission
  | .other => .other

/-- `checkInterface`, statement by statement -/
def checkWith (strict : Bool) (i : Iface) : Res :=
  -- if ifi.Flags&net.FlagUp == 0 { return fmt.Errorf("… is not up: %w", ErrLinkNotReady) }
  if !i.up then { out := .linkNotReady }
  else match i.addrs with
    -- addrs, err := addrFunc(); if err != nil { return fmt.Errorf("failed to get …: %w", err) }
    | .error f => { out := f.out, wrapsAddrErr := true }
    | .ok as =>
      -- for … { … foundLL = true; break }; if !foundLL { return …%w ErrLinkNotReady }
      if as.any (entryMatches strict) then { out := .ok } else { out := .linkNotReady }

/-- `checkInterface` as the source has it -/
def check (i : Iface) : Res := checkWith codeExcludes4In6 i

/-! ### `lookupInterface`, `isNoSuchInterface` -/

/-- an error, as far as `isNoSuchInterface` inspects it -/
structure OpErr where
  /-- `errors.As(err, &oerr)` finds a `*net.OpError` -/
  isOpError : Bool
  /-- `oerr.Op == "route"` -/
  opRoute : Bool
  /-- `oerr.Net == "ip+net"` -/
  netIPNet : Bool
  /-- `oerr.Err.Error() == "no such network interface"` -/
  msgNoSuch : Bool
deriving DecidableEq, Repr, Inhabited

def isNoSuchInterface (e : OpErr) : Bool := e.isOpError && e.opRoute && e.netIPNet && e.msgNoSuch

/-- `lookupInterface`: `none` = `net.InterfaceByName` succeeded -/
def lookup (err : Option OpErr) : DialOut :=
  match err with
  | none => .ok
  | some e => if isNoSuchInterface e then .linkNotReady else .other   -- `%w` ErrLinkNotReady / `%v`

/-- the first two steps of `(*Dialer).dial()`: lookup, then check (only when the lookup
    succeeded) -/
def lookupThenCheck (err : Option OpErr) (i : Iface) : DialOut :=
  match lookup err with
  | .ok => (check i).out
  | o => o

end Corerad.Model.CheckIface
