/-
  Model of `serve` (internal/corerad/server.go): the retry loop around the debug HTTP server's
  listener.  `fn` is called at most `attempts` times (`Gen.Server.serveAttempts`), at once the
  first time and `delay` after the previous failure afterwards; a `*net.OpError` is retried,
  `http.ErrServerClosed` is the expected shutdown (nil), any other error is returned, a nil
  return is a programming error (panic), cancellation — before an attempt or during a wait —
  ends the loop with nil, and `attempts` consecutive listener errors give up with an error.
  `fn` itself takes `dur` (the time the server was up before it failed).
-/
import Corerad.Basic

namespace Corerad.Model.ServeRetry

open Corerad

inductive FnOut where
  | opErr | closed | other | nilRet
deriving DecidableEq, Repr, Inhabited

inductive Res where
  | nil | err | timeout | panic
deriving DecidableEq, Repr, Inhabited

/-- is the context cancelled at `now` -/
def cancelled (cancelAt : Option Time) (now : Time) : Bool :=
  match cancelAt with
  | some c => decide (c ≤ now)
  | none => false

/-- `left` attempts remain; `first` = no attempt made yet; `script` = what each call of `fn`
    returns and after how long.  Result: the instants `fn` was called, the return value, the
    instant `serve` returned. -/
def loop (delay : Dur) : (left : Nat) → (first : Bool) → (now : Time) → (cancelAt : Option Time) →
    List (FnOut × Dur) → List Time × Res × Time
  | 0, _, now, _, _ => ([], .timeout, now)
  | left+1, first, now, cancelAt, script =>
    if cancelled cancelAt now then ([], .nil, now)
    -- wait `delay` unless this is the first attempt; a cancellation ends the wait
    else if !first && cancelled cancelAt (now + delay) then ([], .nil, cancelAt.getD now)
    else
      let t := if first then now else now + delay
      match script with
      | [] => ([t], .panic, t)          -- the harness always supplies enough outcomes
      | (.closed, d) :: _ => ([t], .nil, t + d)
      | (.other, d) :: _ => ([t], .err, t + d)
      | (.nilRet, d) :: _ => ([t], .panic, t + d)
      | (.opErr, d) :: rest =>
        let r := loop delay left false (t + d) cancelAt rest
        (t :: r.1, r.2.1, r.2.2)

def serve (attempts : Nat) (delay : Dur) (cancelAt : Option Time) (script : List (FnOut × Dur)) :
    List Time × Res × Time :=
  loop delay attempts true 0 cancelAt script

end Corerad.Model.ServeRetry
