/-
  Model of the OS glue in internal/netstate/watcher_linux.go (C19):
    process(msgs []rtnetlink.Message) changeSet — route-netlink messages → per-interface changes
    operStateChange(s)                           — RFC 2863 operational state → Change bit

  A received message is what `process` looks at and nothing more:
    kind      0 = `*rtnetlink.LinkMessage`, anything else = another message type (the type
              switch has one case; every other type falls through)
    hasAttrs  `m.Attributes != nil`
    iface     `m.Attributes.Name` (interned to an id by the harness; "" is a name like any other)
    oper      `m.Attributes.OperationalState` (a uint8)

  The `changeSet` (Go: `map[string][]Change`) is an association list with one entry per
  interface; entries are created in order of first occurrence (`addChange`).  Go's map has no order:
  the harness emits the interfaces sorted and the driver sorts the model's entries (`canon`).
  Per interface the list is in message order (`append`).

  The `Change` bit values are the regenerated `Gen.Netstate.*` constants (change.go); the
  numeric operational states are `rtnetlink`'s (if.h `IF_OPER_*`): a dependency's constants,
  written here as literals and tied by the correspondence check, which passes the numeric
  `uint8` of the real `rtnetlink.OperState*` constants.

  Core Lean only: linked into `vfdriver`.
-/
import Corerad.Basic
import Corerad.Model.ListUtil
import Corerad.Gen.Netstate

namespace Corerad.Model.Process

open Corerad Corerad.Model

/-- one received route-netlink message, as far as `process` inspects it -/
structure Msg where
  kind : Nat
  hasAttrs : Bool
  iface : Nat
  oper : Nat
deriving DecidableEq, Repr, Inhabited

/-- `operStateChange`: the `switch` over `rtnetlink.OperState*`, case by case in source order;
    `none` is the `default` branch (`return 0, false`) -/
def operStateChange (s : Nat) : Option Nat :=
  match s with
  | 0 => some Gen.Netstate.linkUnknown          -- OperStateUnknown
  | 1 => some Gen.Netstate.linkNotPresent       -- OperStateNotPresent
  | 2 => some Gen.Netstate.linkDown             -- OperStateDown
  | 3 => some Gen.Netstate.linkLowerLayerDown   -- OperStateLowerLayerDown
  | 4 => some Gen.Netstate.linkTesting          -- OperStateTesting
  | 5 => some Gen.Netstate.linkDormant          -- OperStateDormant
  | 6 => some Gen.Netstate.linkUp               -- OperStateUp
  | _ => none

/-- what one message adds to the change set: `(interface, change)` or nothing
    (`case *rtnetlink.LinkMessage:` / `if m.Attributes == nil { continue }` /
    `c, ok := operStateChange(…); if !ok { continue }`) -/
def contrib (m : Msg) : Option (Nat × Nat) :=
  if m.kind ≠ 0 then none
  else if !m.hasAttrs then none
  else match operStateChange m.oper with
    | none => none
    | some c => some (m.iface, c)

abbrev ChangeSet := List (Nat × List Nat)

/-- `changes[iface] = append(changes[iface], c)` -/
def addChange : ChangeSet → Nat → Nat → ChangeSet
  | [], i, c => [(i, [c])]
  | e :: cs, i, c => if e.1 = i then (e.1, e.2 ++ [c]) :: cs else e :: addChange cs i c

/-- the body of the `for _, m := range msgs` loop -/
def stepMsg (cs : ChangeSet) (m : Msg) : ChangeSet :=
  match contrib m with
  | none => cs
  | some p => addChange cs p.1 p.2

/-- `process(msgs)` -/
def process (msgs : List Msg) : ChangeSet := msgs.foldl stepMsg []

/-- `changes[iface]` (nil when absent) -/
def lookup (cs : ChangeSet) (i : Nat) : List Nat :=
  match cs with
  | [] => []
  | e :: cs => if e.1 = i then e.2 else lookup cs i

def keys (cs : ChangeSet) : List Nat := cs.map (·.1)

/-- canonical rendering of the Go map: entries ascending by interface id -/
def canon (cs : ChangeSet) : ChangeSet := sortBy (fun e => e.1) cs

end Corerad.Model.Process
