/-
  Model of the wildcard expansions in internal/plugin/plugin.go:
    (*Prefix).current  — `::/64`  → the interface's eligible /64 networks      (C13)
    (*RDNSS).current   — `::`     → the best eligible interface address         (C14)
    (*Route).current   — `::/0`   → the maximal, non-overlapping loopback routes (C15)
  The operating system's address / route list is an explicit input.
-/
import Corerad.Basic
import Corerad.Model.ListUtil
import Corerad.Gen.Plugin

namespace Corerad.Model

open Corerad

/-- `system.IP`: an interface address (with its CIDR mask) and its kernel flags. -/
structure SysIP where
  addr : Prefix
  deprecated : Bool := false
  manageTemp : Bool := false
  stablePrivacy : Bool := false
  temporary : Bool := false
  tentative : Bool := false
  validForever : Bool := false
deriving DecidableEq, Repr, Inhabited

/-- sort key of `netip.Addr.Compare`: bit length first, then value -/
def addrKey (a : IP) : Nat := a.bitLen * 2^128 + a.val

/-! ### C13 — `(*Prefix).current` -/

/-- the `continue` conditions of the loop in `(*Prefix).current`, negated -/
def prefixEligible (bits : Nat) (a : SysIP) : Bool :=
  a.addr.isValid &&
  !(a.addr.addr.is4 || a.addr.addr.isLinkLocalUnicast || a.addr.bits != bits) &&
  !(a.temporary || a.tentative)

/-- `(*Prefix).current()` for a stanza whose prefix length is `bits` (64 for the wildcard) -/
def currentPrefixes (bits : Nat) (as : List SysIP) : List Prefix :=
  sortBy (fun p => addrKey p.addr) (dedupe ((as.filter (prefixEligible bits)).map (·.addr.masked)))

/-! ### C14 — `(*RDNSS).current`, `betterRDNSS` -/

def isEUI64 (ip : IP) : Bool := ip.byte16 11 == 0xff && ip.byte16 12 == 0xfe

def isStable (a : SysIP) : Bool :=
  a.validForever || a.manageTemp || a.stablePrivacy || isEUI64 a.addr.addr

def rdnssEligible (a : SysIP) : Bool :=
  !(a.addr.addr.is4 || a.deprecated || a.temporary || a.tentative)

/-- The three ranking predicates in the order found in the source (`Gen.Plugin.rdnssRankingCodes`: 0 `IsPrivate`, 1 `IsGlobalUnicast`, 2 `IsLinkLocalUnicast`). -/
def rankPred (code : Nat) (ip : IP) : Bool :=
  match code with
  | 0 => ip.isPrivate
  | 1 => ip.isGlobalUnicast
  | 2 => ip.isLinkLocalUnicast
  | _ => false

/-- the `for _, fn := range …` loop of `betterRDNSS` over the remaining predicates -/
def rankLoop (best cur : SysIP) : List Nat → SysIP
  | [] => if cur.addr.addr.less best.addr.addr then cur else best
  | f :: fs =>
    let okC := rankPred f cur.addr.addr
    let okB := rankPred f best.addr.addr
    if okC && !okB then cur
    else if !okC && okB then best
    else if okC && okB then (if cur.addr.addr.less best.addr.addr then cur else best)
    else rankLoop best cur fs

/-- `betterRDNSS(best, current)` -/
def betterRDNSS (best cur : SysIP) : SysIP :=
  if !best.addr.isValid then cur
  else
    let okC := isStable cur
    let okB := isStable best
    if okC && !okB then cur
    else if !okC && okB then best
    else rankLoop best cur Gen.Plugin.rdnssRankingCodes

/-- the zero `system.IP` -/
def SysIP.zero : SysIP := { addr := { addr := IP.zero, bits := 0 } }

/-- `(*RDNSS).current()`: `none` is the error "interface has no usable IPv6 addresses". -/
def currentRDNSS (as : List SysIP) : Option IP :=
  let best := (as.filter rdnssEligible).foldl betterRDNSS SysIP.zero
  if best.addr.addr.valid then some best.addr.addr else none

/-- `(*RDNSS).Apply` servers list: the wildcard choice first, then the static servers. -/
def applyRDNSS (auto : Bool) (servers : List IP) (as : Option (List SysIP)) : Option (List IP) :=
  if !auto then some servers
  else match as with
    | none => none                          -- failed to fetch IP addresses
    | some as => match currentRDNSS as with
      | none => none                        -- no usable address
      | some ip => some (ip :: servers)

/-! ### C15 — `(*Route).current` -/

/-- the skip conditions of `(*Route).current`: IPv4, /128, or covered by a different, shorter
    route of the same dump -/
def routeKept (rs : List Prefix) (r : Prefix) : Bool :=
  !(r.addr.is4 || r.isSingleIP) && !rs.any (fun q => decide (q.bits < r.bits) && q.contains r.addr)

def currentRoutes (rs : List Prefix) : List Prefix :=
  sortBy (fun p => addrKey p.addr) (dedupe (rs.filter (routeKept rs)))

end Corerad.Model
