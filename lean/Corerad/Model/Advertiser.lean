/-
  Model of one (re)initialised advertiser run (internal/corerad/advertise.go: `Run`,
  `advertise`, `multicast`, `handle`, `schedule`, `sendWorker`): the initial RA at instant 0,
  the multicast loop's requests, messages delivered by the listener, the scheduler, and the
  first failing transmission (which tears the run down).  All jitter draws are inputs.
-/
import Corerad.Model.Scheduler
import Corerad.Model.Delay

namespace Corerad.Model

open Corerad

/-- a message handed to `ReadFrom`: arrival instant, NDP type (0 RS, 1 RA, 2 NS, 3 NA), source
    (0 = unspecified), IPv6 hop limit -/
structure AdvEvent where
  t : Time
  kind : Nat
  host : Nat
  hop : Nat
deriving DecidableEq, Repr, Inhabited

structure AdvCase where
  min : Dur
  max : Dur
  unicastOnly : Bool
  stop : Time
  /-- index of the WriteTo call that fails (0 = first), or negative -/
  failWrite : Int
  evs : List AdvEvent
  mdraws : List Int
  udraws : List Int
deriving Repr, Inhabited

/-- instants at which the multicast loop issues its requests (first at 0) -/
def loopTimes (min max : Dur) (stop : Time) : List Int → Nat → Time → List Time
  | [], _, t => if t < stop then [t] else []
  | d :: ds, i, t => if t < stop then t :: loopTimes min max stop ds (i+1) (t + multicastDelay d i min max) else []

/-- what `listener.receiveRetry` + `Advertiser.handle` do with a message -/
inductive MsgClass where
  | invalidHop       -- counted invalid by the listener, not delivered
  | solicit          -- valid RS: answered
  | advert           -- RA from another router: verified, no response
  | otherType        -- delivered, counted received and invalid, ignored
deriving DecidableEq, Repr

def classify (e : AdvEvent) : MsgClass :=
  if e.hop ≠ 255 then .invalidHop
  else match e.kind with
    | 0 => .solicit
    | 1 => .advert
    | _ => .otherType

/-- the RA request a message produces -/
def requestOf (e : AdvEvent) : Option (Time × Req) :=
  match classify e with
  | .solicit => some (e.t, if e.host = 0 then .mc else .uc e.host)
  | _ => none

def mergeReqs : List (Time × Req) → List (Time × Req) → List (Time × Req)
  | [], ys => ys
  | xs, [] => xs
  | x :: xs, y :: ys => if x.1 ≤ y.1 then x :: mergeReqs xs (y :: ys) else y :: mergeReqs (x :: xs) ys
termination_by xs ys => xs.length + ys.length

/-- every request that reaches the scheduler, in arrival order -/
def allRequests (c : AdvCase) : List (Time × Req) :=
  let loop := if c.unicastOnly then [] else (loopTimes c.min c.max c.stop c.mdraws 0 0).map fun t => (t, Req.mc)
  mergeReqs loop (c.evs.filterMap requestOf)

/-- a transmission as observed on the connection -/
structure Write where
  t : Time
  mc : Bool
  host : Nat
  failed : Bool
deriving DecidableEq, Repr, Inhabited

def insertWrite (x : Send) : List Send → List Send
  | [] => [x]
  | y :: ys =>
    if x.t < y.t || (x.t == y.t && (x.mc && !y.mc || (x.mc == y.mc && x.host ≤ y.host))) then x :: y :: ys
    else y :: insertWrite x ys

/-- all transmissions due before `stop`, in time order, the initial RA first -/
def dueSends (c : AdvCase) : List Send :=
  let sched := (schedule Gen.Advertise.minDelayBetweenRAs c.unicastOnly { next := 0 } (allRequests c) c.udraws).filter (·.t < c.stop)
  let sorted := sched.foldr insertWrite []
  if c.unicastOnly then sorted else { t := 0, mc := true } :: sorted

/-- apply the scripted failure: the `n`-th transmission fails and nothing is transmitted after it -/
def applyFailure : List Send → Int → List Write
  | [], _ => []
  | s :: rest, n =>
    if n = 0 then [{ t := s.t, mc := s.mc, host := s.host, failed := true }]
    else { t := s.t, mc := s.mc, host := s.host, failed := false } :: applyFailure rest (n - 1)

def writes (c : AdvCase) : List Write := applyFailure (dueSends c) c.failWrite

/-- instant of the failing transmission, if it happens -/
def failureTime (c : AdvCase) : Option Time := ((writes c).find? (·.failed)).map (·.t)

/-- messages processed before the run died -/
def processed (c : AdvCase) : List AdvEvent :=
  match failureTime c with
  | none => c.evs
  | some tf => c.evs.filter (·.t ≤ tf)

def countKind (evs : List AdvEvent) (p : AdvEvent → Bool) (k : Nat) : Nat :=
  (evs.filter fun e => e.kind == k && p e).length

end Corerad.Model
