/-
  Model of `verifyRAs` (internal/corerad/verify.go): the consistency check between CoreRAD's
  own RA (`a`, "want") and an RA received from another router (`b`, "got"), following the Go
  loops, `continue`s and early returns.  Durations are compared at the precision the wire
  format carries (seconds; milliseconds for the two timers) — the repair of F-9; MTU and
  captive-portal options are compared by value — the repair of F-8.
-/
import Corerad.Model.RA

namespace Corerad.Model

open Corerad

/-- field labels of `corerad_advertiser_inconsistencies_total` -/
inductive Field where
  | hopLimit | managed | other | reachable | retransmit | mtu
  | piPreferred | piValid | riLifetime
  | rdnssCount | rdnssLifetime | rdnssServers
  | dnsslCount | dnsslLifetime | dnsslNames | captivePortal
deriving DecidableEq, Repr, Inhabited

/-- an inconsistency: field label and details label (the CIDR of a prefix or route) -/
structure Problem where
  field : Field
  details : Option (IP × Nat) := none
deriving DecidableEq, Repr, Inhabited

def wireSec (d : Dur) : Dur := truncateDur d second
def wireMs (d : Dur) : Dur := truncateDur d ms

/-- `checkDurations`: consistent unless both are specified and differ -/
def checkDurations (unit : Dur) (want got : Dur) : Bool :=
  let w := truncateDur want unit
  let g := truncateDur got unit
  if w = 0 ∨ g = 0 then true else w = g

def pickPI : List Opt → List (IP × Nat × Dur × Dur)
  | [] => []
  | .pi a len _ _ v p :: r => (a, len, v, p) :: pickPI r
  | _ :: r => pickPI r

def pickRI : List Opt → List (IP × Nat × Nat × Dur)
  | [] => []
  | .ri a len pref l :: r => (a, len, pref, l) :: pickRI r
  | _ :: r => pickRI r

def pickRDNSS : List Opt → List (Dur × List IP)
  | [] => []
  | .rdnss l s :: r => (l, s) :: pickRDNSS r
  | _ :: r => pickRDNSS r

def pickDNSSL : List Opt → List (Dur × List Nat)
  | [] => []
  | .dnssl l n :: r => (l, n) :: pickDNSSL r
  | _ :: r => pickDNSSL r

def firstMTU : List Opt → Option Int
  | [] => none
  | .mtu m :: _ => some m
  | _ :: r => firstMTU r

def firstPortal : List Opt → Option Nat
  | [] => none
  | .captivePortal u _ :: _ => some u
  | _ :: r => firstPortal r

def checkRAs (a b : RA) : List Problem :=
  (if a.hopLimit ≠ 0 ∧ b.hopLimit ≠ 0 ∧ a.hopLimit ≠ b.hopLimit then [{ field := .hopLimit }] else []) ++
  (if a.managed ≠ b.managed then [{ field := .managed }] else []) ++
  (if a.other ≠ b.other then [{ field := .other }] else []) ++
  (if !checkDurations ms a.reachable b.reachable then [{ field := .reachable }] else []) ++
  (if !checkDurations ms a.retransmit b.retransmit then [{ field := .retransmit }] else [])

def checkMTUs (want got : List Opt) : List Problem :=
  match firstMTU want, firstMTU got with
  | some x, some y => if x = y then [] else [{ field := .mtu }]
  | _, _ => []

/-- inner loop of `checkPrefixes` for one own prefix -/
def checkPrefixInner (a : IP × Nat × Dur × Dur) : List (IP × Nat × Dur × Dur) → List Problem
  | [] => []
  | b :: bs =>
    (if a.1 ≠ b.1 ∨ a.2.1 ≠ b.2.1 then []
     else
       (if wireSec a.2.2.2 ≠ wireSec b.2.2.2 then [{ field := .piPreferred, details := some (a.1, a.2.1) }] else []) ++
       (if wireSec a.2.2.1 ≠ wireSec b.2.2.1 then [{ field := .piValid, details := some (a.1, a.2.1) }] else [])) ++
    checkPrefixInner a bs

def checkPrefixOuter (bs : List (IP × Nat × Dur × Dur)) : List (IP × Nat × Dur × Dur) → List Problem
  | [] => []
  | a :: as => checkPrefixInner a bs ++ checkPrefixOuter bs as

def checkPrefixes (want got : List Opt) : List Problem :=
  let piA := pickPI want
  let piB := pickPI got
  if piA.isEmpty || piB.isEmpty then [] else checkPrefixOuter piB piA

def checkRouteInner (a : IP × Nat × Nat × Dur) : List (IP × Nat × Nat × Dur) → List Problem
  | [] => []
  | b :: bs =>
    (if a.1 ≠ b.1 ∨ a.2.1 ≠ b.2.1 then []
     else if a.2.2.1 = b.2.2.1 ∧ wireSec a.2.2.2 ≠ wireSec b.2.2.2 then
       [{ field := .riLifetime, details := some (a.1, a.2.1) }]
     else []) ++
    checkRouteInner a bs

def checkRouteOuter (bs : List (IP × Nat × Nat × Dur)) : List (IP × Nat × Nat × Dur) → List Problem
  | [] => []
  | a :: as => checkRouteInner a bs ++ checkRouteOuter bs as

def checkRoutes (want got : List Opt) : List Problem :=
  let riA := pickRI want
  let riB := pickRI got
  if riA.isEmpty || riB.isEmpty then [] else checkRouteOuter riB riA

/-- index-wise loop of `checkRDNSS`/`checkDNSSL` over two lists of equal length -/
def checkDNSPairs [DecidableEq α] (fLifetime fItems : Field) :
    List (Dur × List α) → List (Dur × List α) → List Problem
  | a :: as, b :: bs =>
    (if wireSec a.1 ≠ wireSec b.1 then [{ field := fLifetime }] else []) ++
    (if a.2.length ≠ b.2.length then [{ field := fItems }]
     else if a.2 ≠ b.2 then [{ field := fItems }] else []) ++
    checkDNSPairs fLifetime fItems as bs
  | _, _ => []

def checkDNS [DecidableEq α] (fCount fLifetime fItems : Field) (dnsA dnsB : List (Dur × List α)) : List Problem :=
  if dnsA.isEmpty || dnsB.isEmpty then []
  else if dnsA.length ≠ dnsB.length then [{ field := fCount }]
  else checkDNSPairs fLifetime fItems dnsA dnsB

def checkCaptivePortal (want got : List Opt) : List Problem :=
  match firstPortal want, firstPortal got with
  | some x, some y => if x = y then [] else [{ field := .captivePortal }]
  | _, _ => []

/-- `verifyRAs(a, b)` -/
def verifyRAs (a b : RA) : List Problem :=
  checkRAs a b ++ checkMTUs a.options b.options ++ checkPrefixes a.options b.options ++
  checkRoutes a.options b.options ++
  checkDNS .rdnssCount .rdnssLifetime .rdnssServers (pickRDNSS a.options) (pickRDNSS b.options) ++
  checkDNS .dnsslCount .dnsslLifetime .dnsslNames (pickDNSSL a.options) (pickDNSSL b.options) ++
  checkCaptivePortal a.options b.options

/-- the RA branch of `(*Advertiser).handle`: the problems logged and counted (each once, under
    its field/details labels) and whether `OnInconsistentRA` fires -/
def handleRA (own got : RA) : List Problem × Bool :=
  let ps := verifyRAs own got
  (ps, !ps.isEmpty)

end Corerad.Model
