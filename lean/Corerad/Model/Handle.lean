/-
  What `(*Advertiser).handle` (internal/corerad/advertise.go) decides for ONE message the listener
  delivered (hop limit 255 — anything else never reaches it, C09): the record the regenerated
  `Gen.Trans.Advertiser_handle` returns, and the same decision read off the model's classification
  (`Model.classify` / `Model.requestOf`), which the C07 / C09 theorems are about.
-/
import Corerad.Model.Advertiser

namespace Corerad.Model

/-- the decision of `handle` -/
structure HandleOut where
  /-- `corerad_advertiser_messages_received_total` incremented -/
  received : Bool
  /-- 0 = no response (`netip.Addr{}`), 1 = the sender, 2 = all-nodes -/
  respond : Nat
  /-- returns an error (the task is torn down) -/
  fails : Bool
  /-- the own RA was built for comparison -/
  built : Bool
  /-- `verifyRAs` ran -/
  verified : Bool
  /-- one `router_advertisement_inconsistencies_total` increment per problem -/
  reports : Bool
  /-- `OnInconsistentRA` invoked (when set) -/
  hook : Bool
  /-- `corerad_messages_received_invalid_total` incremented -/
  invalid : Bool
deriving DecidableEq, Repr, Inhabited

/-- the decision as the model has it: a delivered message of `kind` from `host` (0 = unspecified) -/
def handleModel (kind host : Nat) (buildFails problemsEmpty : Bool) : HandleOut :=
  let e : AdvEvent := { t := 0, kind := kind, host := host, hop := 255 }
  match classify e with
  | .solicit =>
    { received := true, fails := false, built := false, verified := false, reports := false, hook := false, invalid := false,
      respond := match requestOf e with
        | some (_, .mc) => 2
        | some (_, .uc _) => 1
        | none => 0 }
  | .advert =>
    if buildFails then
      { received := true, respond := 0, fails := true, built := true, verified := false, reports := false, hook := false, invalid := false }
    else
      { received := true, respond := 0, fails := false, built := true, verified := true,
        reports := !problemsEmpty, hook := !problemsEmpty, invalid := false }
  | _ =>
    { received := true, respond := 0, fails := false, built := false, verified := false, reports := false, hook := false, invalid := true }

end Corerad.Model
