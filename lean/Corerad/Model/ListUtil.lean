/-
  List helpers used by the model: first-seen de-duplication (Go: `seen` map + append) and a
  stable insertion sort by a `Nat` key (Go: `slices.SortStableFunc`; any stable sort
  computes the same function, the correspondence check validates the choice).
-/
namespace Corerad.Model

/-- keep the first occurrence of every element, in order -/
def dedupe [DecidableEq α] : List α → List α
  | [] => []
  | x :: xs => x :: (dedupe xs).filter (· ≠ x)

/-- insert `x` before the first element whose key is not smaller (stable for the element that
    came first in the input) -/
def insertBy (key : α → Nat) (x : α) : List α → List α
  | [] => [x]
  | y :: ys => if key x ≤ key y then x :: y :: ys else y :: insertBy key x ys

/-- stable insertion sort by `key` -/
def sortBy (key : α → Nat) : List α → List α
  | [] => []
  | x :: xs => insertBy key x (sortBy key xs)

/-- insert `x` before the first element that does not precede it under `cmp` -/
def insertCmp (cmp : α → α → Int) (x : α) : List α → List α
  | [] => [x]
  | y :: ys => if cmp x y ≤ 0 then x :: y :: ys else y :: insertCmp cmp x ys

/-- Go: `slices.SortStableFunc(l, cmp)` — a stable sort by the three-way comparison `cmp`
    (negative: before, zero: keep the input order).  Stable insertion sort; for a `cmp` that is a
    total preorder every stable sorting algorithm computes this list. -/
def sortStableFunc (cmp : α → α → Int) : List α → List α
  | [] => []
  | x :: xs => insertCmp cmp x (sortStableFunc cmp xs)

end Corerad.Model

namespace Corerad.Model

/-- Go's element-wise comparison loop `equal := true; for j := range xs { if xs[j] != ys[j] { equal = false; break } }`
    over two slices of equal length -/
def zipAllEq [DecidableEq α] : List α → List α → Bool
  | a :: as, b :: bs => decide (a = b) && zipAllEq as bs
  | _, _ => true

theorem zipAllEq_eq [DecidableEq α] (xs ys : List α) (h : xs.length = ys.length) :
    zipAllEq xs ys = decide (xs = ys) := by
  induction xs generalizing ys with
  | nil => cases ys <;> simp_all [zipAllEq]
  | cons a as ih =>
    cases ys with
    | nil => simp at h
    | cons b bs =>
      have hl : as.length = bs.length := by simpa using h
      simp [zipAllEq, ih bs hl]

end Corerad.Model
