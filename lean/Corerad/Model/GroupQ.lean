/-
  The goroutine group of an advertiser (Model/Group.lean) refined by the request channel
  `ipC` of `advertise()`: the listener's callback and the multicast loop are *producers* which
  send a destination on `ipC` (capacity `cap`, `Gen.Advertise.ipCCap`), the scheduler is the only
  *consumer*.  A send on a full channel blocks; nobody receives once the scheduler has stopped
  consuming — which it does (a) when it returns, and (b) on its error path while it still waits
  for router advertisements that are being transmitted (`gate.close()`, `sg.Wait()`): in (b) the
  group's context is not cancelled yet, so the producers keep producing.

  `guarded` records how the producers send (regenerated from the source,
  `Gen.Advertise.ipcSendsGuarded`): `select { case ipC <- ip: case <-ctx.Done(): }` (true) or a
  bare `ipC <- ip` (false).  With a bare send a producer that finds the channel full after the
  consumer has gone blocks forever, and `Listen` — hence the whole task — never returns.

  Everything of Model/Group.lean is kept (same fields, same events, same guards); the listener's
  `reading` state is split into `reading` / `sending`, the multicast loop and the scheduler get
  program counters.
-/
import Corerad.Basic
import Corerad.Model.Group

namespace Corerad.Model.GroupQ

open Corerad.Model.Group (LPc)

/-- program counter of the multicast loop -/
inductive MPc where
  | idle      -- between sends (waiting for its timer, or about to check the context)
  | sending   -- in `ipC <- all-nodes`
  | done
deriving DecidableEq, Repr, Inhabited

/-- program counter of the scheduler -/
inductive SPc where
  | consuming  -- in its select loop: receives from `ipC`
  | stopping   -- a transmission failed while others are in flight: no longer receives, waits for
               -- them (`gate.close(); sg.Wait()`); its error is not returned yet
  | done
deriving DecidableEq, Repr, Inhabited

structure St where
  parent : Bool := false
  eg : Bool := false
  lctx : Bool := false
  dl : Bool := false
  l : LPc := .reading
  /-- the listener's callback is in its send on `ipC` (only while `l = reading`) -/
  ls : Bool := false
  i : Bool := false
  s : SPc := .consuming
  m : MPc := .idle
  w : Bool := false
  ret : Bool := false
  /-- requests buffered in `ipC` -/
  q : Nat := 0
deriving DecidableEq, Repr, Inhabited

def St.ctxDone (x : St) : Bool := x.parent || x.eg

inductive Ev where
  -- environment
  | cancelParent | readErr | linkChange
  | writeErr          -- a transmission fails, nothing else in flight: the scheduler returns its error
  | writeErrInflight  -- a transmission fails while another is in flight: the scheduler stops consuming
  | inflightDone      -- the transmissions in flight have completed: the scheduler returns its error
  | solicit           -- the listener read a valid solicitation: its callback sends on `ipC`
  | tick              -- the multicast loop's timer fired (context not cancelled when checked)
  -- internal
  | iRun | lSeeCancel | lCancelWaitDone | lErrDefer | lErrWaitDone | sRet | mRet | wRet
  | lSend | lAbort | mSend | mAbort | sConsume
  | groupReturn
deriving DecidableEq, Repr, Inhabited

def step (cbw guarded : Bool) (cap : Nat) (x : St) : Ev → Option St
  | .cancelParent => if !x.parent then some { x with parent := true } else none
  | .readErr =>
    if x.l = .reading ∧ !x.ls ∧ !x.ctxDone then some { x with l := .errPath } else none
  | .linkChange =>
    if !x.w ∧ !x.ctxDone then some { x with w := true, eg := true } else none
  | .writeErr =>
    if x.s = .consuming ∧ !x.ctxDone then some { x with s := .done, eg := true } else none
  | .writeErrInflight =>
    if x.s = .consuming ∧ !x.ctxDone then some { x with s := .stopping } else none
  | .inflightDone =>
    if x.s = .stopping then some { x with s := .done, eg := true } else none
  | .solicit =>      -- a message is only read while no forced deadline makes the read fail
    if x.l = .reading ∧ !x.ls ∧ !x.dl then some { x with ls := true } else none
  | .tick =>
    if x.m = .idle ∧ !x.ctxDone then some { x with m := .sending } else none
  | .iRun =>
    if !x.i ∧ (x.ctxDone || x.lctx) then some { x with i := true, dl := true } else none
  | .lSeeCancel =>
    if x.l = .reading ∧ !x.ls ∧ x.ctxDone ∧ x.dl then some { x with l := .cancelWait } else none
  | .lCancelWaitDone => if x.l = .cancelWait ∧ x.i then some { x with l := .done } else none
  | .lErrDefer =>
    if x.l = .errPath then some { x with l := .errWait, lctx := x.lctx || cbw } else none
  | .lErrWaitDone =>
    if x.l = .errWait ∧ x.i then some { x with l := .done, eg := true } else none
  | .sRet => if x.s = .consuming ∧ x.ctxDone then some { x with s := .done } else none
  | .mRet => if x.m = .idle ∧ x.ctxDone then some { x with m := .done } else none
  | .wRet => if !x.w ∧ x.ctxDone then some { x with w := true } else none
  | .lSend => if x.ls ∧ x.q < cap then some { x with ls := false, q := x.q + 1 } else none
  | .lAbort => if x.ls ∧ guarded ∧ x.ctxDone then some { x with ls := false } else none
  | .mSend => if x.m = .sending ∧ x.q < cap then some { x with m := .idle, q := x.q + 1 } else none
  | .mAbort => if x.m = .sending ∧ guarded ∧ x.ctxDone then some { x with m := .idle } else none
  | .sConsume => if x.s = .consuming ∧ 0 < x.q then some { x with q := x.q - 1 } else none
  | .groupReturn =>
    if x.l = .done ∧ x.i ∧ x.s = .done ∧ x.m = .done ∧ x.w ∧ !x.ret then some { x with ret := true } else none

def internal : List Ev :=
  [.iRun, .lSeeCancel, .lCancelWaitDone, .lErrDefer, .lErrWaitDone, .sRet, .mRet, .wRet,
   .lSend, .lAbort, .mSend, .mAbort, .sConsume, .groupReturn]

def quiescent (cbw guarded : Bool) (cap : Nat) (x : St) : Bool :=
  internal.all fun e => (step cbw guarded cap x e).isNone

def triggered (x : St) : Bool := x.parent || x.eg || x.l != .reading || x.s != .consuming

def run (cbw guarded : Bool) (cap : Nat) : St → List Ev → Option St
  | x, [] => some x
  | x, e :: es => match step cbw guarded cap x e with
    | none => none
    | some y => run cbw guarded cap y es

/-- initial state of an advertiser's group -/
def init (unicastOnly : Bool) : St := { m := if unicastOnly then .done else .idle }

/-- termination measure of the internal steps: a pending send weighs more than a buffered
    request, so completing a send (which buffers one) still decreases it -/
def work (x : St) : Nat :=
  (if x.i then 0 else 1) + (if x.w then 0 else 1) + (if x.ret then 0 else 1) +
  (match x.s with | .consuming => 1 | .stopping => 0 | .done => 0) +
  (match x.m with | .idle => 1 | .sending => 3 | .done => 0) +
  (if x.ls then 2 else 0) + x.q +
  (match x.l with | .reading => 4 | .errPath => 3 | .errWait => 2 | .cancelWait => 2 | .done => 0)

/-- projection onto the coarser group of Model/Group.lean -/
def abs (x : St) : Group.St :=
  { parent := x.parent, eg := x.eg, lctx := x.lctx, dl := x.dl, l := x.l, i := x.i,
    s := x.s == .done, m := x.m == .done, w := x.w, ret := x.ret }

end Corerad.Model.GroupQ
