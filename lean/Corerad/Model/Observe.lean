/-
  Model of the two read-only observation paths of a running daemon (C17):

    internal/corerad/metrics.go   (*Metrics).constScrape, collectMetrics   — Prometheus scrape
    internal/crhttp/handler.go    NewHandler, (*Handler).interfaces         — debug API
    internal/crhttp/ra.go         packRA, packOptions, preference
    internal/plugin/plugin.go     the plugins' runtime state before/after Prepare

  Both paths regenerate the RA of every advertising interface from the *shared* plugin values
  (cmd/corerad/main.go hands the same `cfg.Interfaces` to metrics, handler and server).  A
  plugin's sources (`Addrs`, `Routes`, `TimeNow`, `LLA.Addr`) are populated by `Prepare`, which
  the advertiser calls only after the interface has been dialled.  Before that they are nil:
  the model yields `Result.panic` exactly where Go would call a nil func, unless the source
  guards the call (facts `Gen.Plugin.*GuardsNil*`, regenerated from the source on every run).

  Three-valued results: `ok x | error | panic` (DESIGN §3: nothing is totalised silently).

  Lifetimes are `Int` nanoseconds; a sample's value is the gauge value in units of 10⁻⁹
  (`Duration.Seconds()` is the exact rational `d / 10⁹`; a flag gauge is `0` or `10⁹`), so no
  floats occur.  Label strings are abstract: interface id, `(address, length)` for the CIDR
  label, the server list, the domain-id list (`netip.Prefix.String`, `strings.Join` trusted to
  be injective on what the parser accepts, as in C18).
-/
import Corerad.Basic
import Corerad.Model.RA
import Corerad.Gen.Metrics
import Corerad.Gen.Plugin

namespace Corerad.Model.Observe

open Corerad Corerad.Model

/-! ### three-valued results -/

inductive Result (α : Type) where
  | ok (x : α)
  | error
  | panic
deriving DecidableEq, Repr

namespace Result

/-- sequential composition: the first outcome that is not `ok` wins (Go: early `return err`,
    or the panic unwinding) -/
def bind : Result α → (α → Result β) → Result β
  | ok x, f => f x
  | error, _ => error
  | panic, _ => panic

def ofOption : Option α → Result α
  | some x => ok x
  | none => error

def isPanic : Result α → Bool
  | panic => true
  | _ => false

@[simp] theorem bind_ok (x : α) (f : α → Result β) : (ok x).bind f = f x := rfl
@[simp] theorem bind_error (f : α → Result β) : (error : Result α).bind f = error := rfl
@[simp] theorem bind_panic (f : α → Result β) : (panic : Result α).bind f = panic := rfl

end Result

/-! ### what the source does (regenerated facts, gathered in one record) -/

/-- does the plugin check the named source for nil before calling it? -/
structure Guards where
  prefixAddrs : Bool
  prefixTimeNow : Bool
  routeRoutes : Bool
  routeTimeNow : Bool
  rdnssAddrs : Bool
deriving DecidableEq, Repr

def Guards.all : Guards := ⟨true, true, true, true, true⟩
def Guards.none : Guards := ⟨false, false, false, false, false⟩

/-- option kinds `collectMetrics` picks out of the RA (`pick[*ndp.X]`) -/
structure CollectKinds where
  pinfo : Bool
  route : Bool
  rdnss : Bool
  dnssl : Bool
deriving DecidableEq, Repr

def CollectKinds.all : CollectKinds := ⟨true, true, true, true⟩

def CollectKinds.ofNames (l : List String) : CollectKinds :=
  { pinfo := l.contains "PrefixInformation", route := l.contains "RouteInformation",
    rdnss := l.contains "RecursiveDNSServer", dnssl := l.contains "DNSSearchList" }

/-- option kinds the type switch of `packOptions` handles -/
structure PackKinds where
  captivePortal : Bool
  dnssl : Bool
  lla : Bool
  mtu : Bool
  pinfo : Bool
  rdnss : Bool
  route : Bool
  pref64 : Bool
deriving DecidableEq, Repr

def PackKinds.all : PackKinds := ⟨true, true, true, true, true, true, true, true⟩

def PackKinds.ofNames (l : List String) : PackKinds :=
  { captivePortal := l.contains "CaptivePortal", dnssl := l.contains "DNSSearchList",
    lla := l.contains "LinkLayerAddress", mtu := l.contains "MTU",
    pinfo := l.contains "PrefixInformation", rdnss := l.contains "RecursiveDNSServer",
    route := l.contains "RouteInformation", pref64 := l.contains "PREF64" }

/-- everything the model takes from the source text -/
structure Src where
  guards : Guards
  collect : CollectKinds
  pack : PackKinds
  metricsGated : Bool
  pprofGated : Bool
deriving DecidableEq, Repr

/-- the source as it is now -/
def Src.gen : Src :=
  { guards := { prefixAddrs := Gen.Plugin.prefixGuardsNilAddrs,
                prefixTimeNow := Gen.Plugin.prefixGuardsNilTimeNow,
                routeRoutes := Gen.Plugin.routeGuardsNilRoutes,
                routeTimeNow := Gen.Plugin.routeGuardsNilTimeNow,
                rdnssAddrs := Gen.Plugin.rdnssGuardsNilAddrs },
    collect := CollectKinds.ofNames Gen.Metrics.collectPickKinds,
    pack := PackKinds.ofNames Gen.Metrics.packOptionKinds,
    metricsGated := Gen.Metrics.metricsGated,
    pprofGated := Gen.Metrics.pprofGated }

/-- the source the property calls for: every nil source guarded, every kind rendered, both
    routes gated -/
def Src.sound : Src :=
  { guards := Guards.all, collect := CollectKinds.all, pack := PackKinds.all,
    metricsGated := true, pprofGated := true }

/-! ### plugin runtime state -/

/-- where an interface is in the daemon's life -/
inductive Lifecycle where
  | never            -- not dialled yet: `Prepare` has never run on its plugins
  | initialised      -- `Prepare` ran, the advertiser is advertising
  | reinitialising   -- the advertiser is re-dialling; `Prepare` runs again and only replaces
                     -- the sources by equivalent ones, so the plugins stay prepared
deriving DecidableEq, Repr

def Lifecycle.prepared : Lifecycle → Bool
  | .never => false
  | _ => true

/-- the outcome of reaching a source that may be nil: `auto` needs `Addrs`/`Routes`,
    `dep` needs `TimeNow`; `gA`/`gT` say whether the source checks them for nil first -/
def nilOutcome (auto gA dep gT : Bool) : Result Unit :=
  if (auto && gA) || (dep && gT) then .error
  else if auto || dep then .panic
  else .ok ()

/-- does `Apply` on a plugin that was never prepared reach a nil func? -/
def nilCall (g : Guards) : Plugin → Result Unit
  | .pfx auto _ _ _ _ _ dep => nilOutcome auto g.prefixAddrs dep g.prefixTimeNow
  | .route auto _ _ _ dep => nilOutcome auto g.routeRoutes dep g.routeTimeNow
  | .rdnss auto _ _ => nilOutcome auto g.rdnssAddrs false false
  | _ => .ok ()

/-- the state a never-prepared plugin can see: `LLA.Addr` is nil -/
def unpreparedSys (sys : SysState) : SysState := { sys with mac := none }

/-- the system state `Apply` reads at this point of the interface's life -/
def effSys (prepared : Bool) (sys : SysState) : SysState :=
  if prepared then sys else unpreparedSys sys

/-- `Plugin.Apply` at a lifecycle point -/
def applyPlugin (g : Guards) (prepared : Bool) (sys : SysState) (p : Plugin) : Result (List Opt) :=
  if prepared then Result.ofOption (p.apply sys)
  else match nilCall g p with
    | .panic => .panic
    | .error => .error
    | .ok _ => Result.ofOption (p.apply (unpreparedSys sys))

/-- the plugin loop of `RouterAdvertisement`: first error returns, a panic unwinds -/
def applyAllR (g : Guards) (prepared : Bool) (sys : SysState) : List Plugin → Result (List Opt)
  | [] => .ok []
  | p :: ps =>
    (applyPlugin g prepared sys p).bind fun os =>
      (applyAllR g prepared sys ps).bind fun rest => .ok (os ++ rest)

/-- header copy and forwarding rule of `Interface.RouterAdvertisement` -/
def finishRA (ifi : Interface) (forwarding : Bool) (opts : List Opt) : RA × Bool :=
  let ra : RA := {
    hopLimit := ifi.hopLimit, managed := ifi.managed, other := ifi.otherConfig,
    preference := ifi.preference, routerLifetime := ifi.defaultLifetime,
    reachable := ifi.reachable, retransmit := ifi.retransmit, options := opts }
  if ra.routerLifetime > 0 ∧ !forwarding then ({ ra with routerLifetime := 0 }, true)
  else (ra, false)

/-- `Interface.RouterAdvertisement(forwarding)` at a lifecycle point -/
def routerAdvertisementR (g : Guards) (prepared : Bool) (ifi : Interface) (sys : SysState)
    (forwarding : Bool) : Result (RA × Bool) :=
  (applyAllR g prepared sys ifi.plugins).bind fun opts => .ok (finishRA ifi forwarding opts)

/-! ### samples -/

/-- the const metric families of metrics.go (`corerad_interface_*`, `corerad_advertiser_*`) -/
inductive Family where
  | advertising | monitoring | autoconfiguration | forwarding | misconfiguration
  | prefixAutonomous | prefixOnLink | prefixValid | prefixPreferred
  | routeLifetime | rdnssLifetime | dnsslLifetime
deriving DecidableEq, Repr

def Family.id : Family → Nat
  | .advertising => 0 | .monitoring => 1 | .autoconfiguration => 2 | .forwarding => 3
  | .misconfiguration => 4 | .prefixAutonomous => 5 | .prefixOnLink => 6 | .prefixValid => 7
  | .prefixPreferred => 8 | .routeLifetime => 9 | .rdnssLifetime => 10 | .dnsslLifetime => 11

/-- label values of one sample -/
inductive Labels where
  | iface (i : Nat)
  | details (i : Nat)                         -- interface, "interface_not_forwarding"
  | cidr (i : Nat) (a : IP) (len : Nat)       -- interface, prefix/route in CIDR form
  | servers (i : Nat) (l : List IP)           -- interface, "a, b, c"
  | domains (i : Nat) (l : List Nat)          -- interface, "x, y"
deriving DecidableEq, Repr

def Labels.ifaceOf : Labels → Nat
  | .iface i => i | .details i => i | .cidr i _ _ => i | .servers i _ => i | .domains i _ => i

structure Sample where
  family : Family
  labels : Labels
  /-- gauge value × 10⁹ -/
  value : Int
deriving DecidableEq, Repr

/-- `boolFloat` -/
def b2v (b : Bool) : Int := if b then second else 0

/-- the samples one option gives rise to in `collectMetrics` -/
def optSamples (ck : CollectKinds) (name : Nat) : Opt → List Sample
  | .pi a len onLink autonomous valid preferred =>
    if ck.pinfo then
      [⟨.prefixAutonomous, .cidr name a len, b2v autonomous⟩,
       ⟨.prefixOnLink, .cidr name a len, b2v onLink⟩,
       ⟨.prefixValid, .cidr name a len, valid⟩,
       ⟨.prefixPreferred, .cidr name a len, preferred⟩]
    else []
  | .ri a len _ lifetime => if ck.route then [⟨.routeLifetime, .cidr name a len, lifetime⟩] else []
  | .rdnss lifetime servers => if ck.rdnss then [⟨.rdnssLifetime, .servers name servers, lifetime⟩] else []
  | .dnssl lifetime names => if ck.dnssl then [⟨.dnsslLifetime, .domains name names, lifetime⟩] else []
  | _ => []

/-- the four per-interface gauges -/
def gauges (name : Nat) (advertise monitor autoconf forwarding : Bool) : List Sample :=
  [⟨.advertising, .iface name, b2v advertise⟩, ⟨.monitoring, .iface name, b2v monitor⟩,
   ⟨.autoconfiguration, .iface name, b2v autoconf⟩, ⟨.forwarding, .iface name, b2v forwarding⟩]

/-- `collectMetrics(metrics, mctx)`; `ra = none` is the nil advertisement of an interface that
    does not advertise -/
def collectMetrics (ck : CollectKinds) (ifi : Interface) (autoconf forwarding : Bool)
    (ra : Option (RA × Bool)) : List Sample :=
  gauges ifi.name ifi.advertise ifi.monitor autoconf forwarding ++
  match ra with
  | none => []
  | some (ra, mis) =>
    (if mis then [⟨.misconfiguration, .details ifi.name, second⟩] else []) ++
    ra.options.flatMap (optSamples ck ifi.name)

/-- what a scrape or request finds for one interface: its lifecycle point, the system state
    its plugins would read, and the results of the two sysctl reads (`none` = read failed) -/
structure IfEnv where
  lifecycle : Lifecycle := .initialised
  sys : SysState := {}
  autoconf : Option Bool := some false
  forwarding : Option Bool := some true
deriving Repr

/-- one iteration of the loop in `constScrape` -/
def scrapeIface (s : Src) (ifi : Interface) (e : IfEnv) : Result (List Sample) :=
  match e.autoconf with
  | none => .error
  | some auto =>
    match e.forwarding with
    | none => .error
    | some fw =>
      if ifi.advertise then
        (routerAdvertisementR s.guards e.lifecycle.prepared ifi e.sys fw).bind fun r =>
          .ok (collectMetrics s.collect ifi auto fw (some r))
      else .ok (collectMetrics s.collect ifi auto fw none)

/-- `constScrape`: interfaces in configuration order, first failure ends the scrape -/
def collectAll (s : Src) : List (Interface × IfEnv) → Result (List Sample)
  | [] => .ok []
  | (ifi, e) :: rest =>
    (scrapeIface s ifi e).bind fun a => (collectAll s rest).bind fun b => .ok (a ++ b)

/-- two samples of one family with equal label values -/
def sameSeries (a b : Sample) : Bool := a.family == b.family && a.labels == b.labels

def hasDup : List Sample → Bool
  | [] => false
  | x :: xs => xs.any (sameSeries x) || hasDup xs

/-- `prometheus.Registry.Gather`: "collected metric … was collected before with the same name
    and label values" fails the whole gather -/
def gather (ss : List Sample) : Result (List Sample) :=
  if hasDup ss then .error else .ok ss

/-- one Prometheus scrape of the const metrics -/
def scrape (s : Src) (envs : List (Interface × IfEnv)) : Result (List Sample) :=
  (collectAll s envs).bind gather

/-! ### debug API -/

structure JPrefix where
  addr : IP
  len : Nat
  onLink : Bool
  autonomous : Bool
  validSeconds : Int
  preferredSeconds : Int
deriving DecidableEq, Repr

structure JRoute where
  addr : IP
  len : Nat
  preference : Nat
  lifetimeSeconds : Int
deriving DecidableEq, Repr

/-- `options` of ra.go; the `pref64` list exists once the source handles the kind -/
structure JOptions where
  dnssl : List (Int × List Nat) := []
  mtu : Int := 0
  prefixes : List JPrefix := []
  rdnss : List (Int × List IP) := []
  routes : List JRoute := []
  lla : Option (Nat × Nat) := none
  captivePortal : Option (Nat × Nat) := none
  pref64 : List (Prefix × Int) := []
deriving DecidableEq, Repr

structure JRA where
  hopLimit : Nat
  managed : Bool
  other : Bool
  preference : Nat
  routerLifetimeSeconds : Int
  reachableMs : Int
  retransmitMs : Int
  options : JOptions
deriving DecidableEq, Repr

structure JIface where
  name : Nat
  advertise : Bool
  advertisement : Option JRA
deriving DecidableEq, Repr

/-- `preference()` panics on anything but Low, Medium, High -/
def prefValid (p : Nat) : Bool := p == prefMedium || p == prefHigh || p == prefLow

/-- `int(d.Milliseconds())` -/
def wholeMs (d : Dur) : Int := goDiv d ms

/-- one iteration of the type switch in `packOptions` -/
def packOpt (pk : PackKinds) (out : JOptions) : Opt → Result JOptions
  | .captivePortal u l => if pk.captivePortal then .ok { out with captivePortal := some (u, l) } else .panic
  | .dnssl lt names =>
    if pk.dnssl then .ok { out with dnssl := out.dnssl ++ [(wholeSeconds lt, names)] } else .panic
  | .lla len mac => if pk.lla then .ok { out with lla := some (len, mac) } else .panic
  | .mtu m => if pk.mtu then .ok { out with mtu := m } else .panic
  | .pi a len ol au v p =>
    if pk.pinfo then
      .ok { out with prefixes := out.prefixes ++ [⟨a, len, ol, au, wholeSeconds v, wholeSeconds p⟩] }
    else .panic
  | .rdnss lt servers =>
    if pk.rdnss then .ok { out with rdnss := out.rdnss ++ [(wholeSeconds lt, servers)] } else .panic
  | .ri a len pref lt =>
    if pk.route then
      (if prefValid pref then .ok { out with routes := out.routes ++ [⟨a, len, pref, wholeSeconds lt⟩] }
       else .panic)
    else .panic
  | .pref64 p lt =>
    if pk.pref64 then .ok { out with pref64 := out.pref64 ++ [(p, wholeSeconds lt)] } else .panic

/-- the loop of `packOptions` from an accumulator -/
def packFrom (pk : PackKinds) (out : JOptions) : List Opt → Result JOptions
  | [] => .ok out
  | o :: os => (packOpt pk out o).bind fun out' => packFrom pk out' os

/-- `packOptions(opts)` -/
def packOptions (pk : PackKinds) (opts : List Opt) : Result JOptions := packFrom pk {} opts

/-- `packRA(ra)` -/
def packRA (pk : PackKinds) (ra : RA) : Result JRA :=
  if !prefValid ra.preference then .panic
  else (packOptions pk ra.options).bind fun o =>
    .ok { hopLimit := ra.hopLimit, managed := ra.managed, other := ra.other,
          preference := ra.preference, routerLifetimeSeconds := wholeSeconds ra.routerLifetime,
          reachableMs := wholeMs ra.reachable, retransmitMs := wholeMs ra.retransmit, options := o }

/-- one iteration of the loop in `(*Handler).interfaces` -/
def apiIface (s : Src) (ifi : Interface) (e : IfEnv) : Result JIface :=
  if !ifi.advertise then .ok { name := ifi.name, advertise := false, advertisement := none }
  else match e.forwarding with
    | none => .error
    | some fw =>
      (routerAdvertisementR s.guards e.lifecycle.prepared ifi e.sys fw).bind fun r =>
        (packRA s.pack r.1).bind fun j =>
          .ok { name := ifi.name, advertise := true, advertisement := some j }

/-- `GET /_/api/interfaces` -/
def api (s : Src) : List (Interface × IfEnv) → Result (List JIface)
  | [] => .ok []
  | (ifi, e) :: rest =>
    (apiIface s ifi e).bind fun a => (api s rest).bind fun b => .ok (a :: b)

/-! ### route gating of `NewHandler` -/

inductive Path where
  | root            -- "/"
  | interfaces      -- "/_/api/interfaces"
  | metrics         -- "/metrics"
  | pprofIndex      -- "/debug/pprof/"
  | pprofCmdline    -- "/debug/pprof/cmdline"
  | unknown         -- anything else outside those
deriving DecidableEq, Repr

/-- is the path answered by a registered handler (anything but the mux's 404)? -/
def served (s : Src) (prometheus pprof : Bool) : Path → Bool
  | .root => true
  | .interfaces => true
  | .metrics => if s.metricsGated then prometheus else true
  | .pprofIndex => if s.pprofGated then pprof else true
  | .pprofCmdline => if s.pprofGated then pprof else true
  | .unknown => false

/-! ### canonical order (the registry's output order is by family name and label values; the
    harness and the driver agree on this one instead) -/

def ipKey (a : IP) : List Nat := [if !a.valid then 0 else if a.v4 then 4 else 6, a.val]

def Labels.key : Labels → List Nat
  | .iface i => [i]
  | .details i => [i]
  | .cidr i a len => i :: ipKey a ++ [len]
  | .servers i l => i :: l.flatMap ipKey
  | .domains i l => i :: l

/-- lexicographic `≤` on lists of naturals (a proper prefix is smaller) -/
def listLe : List Nat → List Nat → Bool
  | [], _ => true
  | _ :: _, [] => false
  | a :: as, b :: bs => if a < b then true else if b < a then false else listLe as bs

def sampleLe (a b : Sample) : Bool :=
  if a.family.id < b.family.id then true
  else if b.family.id < a.family.id then false
  else if a.labels.key != b.labels.key then listLe a.labels.key b.labels.key
  else decide (a.value ≤ b.value)

def insertSample (x : Sample) : List Sample → List Sample
  | [] => [x]
  | y :: ys => if sampleLe x y then x :: y :: ys else y :: insertSample x ys

/-- insertion sort by (family, label values, value) -/
def canon : List Sample → List Sample
  | [] => []
  | x :: xs => insertSample x (canon xs)

end Corerad.Model.Observe
