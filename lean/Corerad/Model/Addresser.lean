/-
  Model of the OS glue in internal/system/addresser_linux.go (C13, C14, C15):
    (*addresser).AddressesByIndex — RTM_GETADDR dump → []system.IP
    (*addresser).routesByIndex    — RTM_GETROUTE dump → []system.Route
  with the `execute` hook (the rtnetlink request/response) as an explicit input.

  A dumped message is what the functions look at and nothing more:
    AddrMsg   isAddr    `m.(*rtnetlink.AddressMessage)` succeeds
              family    `am.Family` (uint8)
              hasAttrs  `am.Attributes != nil`
              ip        `netip.AddrFromSlice(am.Attributes.Address)`; `valid = false` ⇔ `!ok`
              plen      `am.PrefixLength` (uint8)
              flags     `am.Attributes.Flags` (uint32, the IFA_FLAGS attribute)
              valid     `am.Attributes.CacheInfo.Valid` (uint32, seconds)
              loc       `am.Attributes.Local` (not read by the source)
    RouteMsg  isRoute, family, dst (`netip.AddrFromSlice(rm.Attributes.Dst)`), dlen
              (`rm.DstLength`), oif (`rm.Attributes.OutIface`), pref (`rm.Attributes.Pref`)

  `none` as a result is a panic (the "rtnetlink package invariant checks").

  The IFA_F_* masks and AF_INET6 are golang.org/x/sys/unix constants (linux/if_addr.h):
  a dependency's constants, written here as literals and tied by the correspondence check,
  which passes raw `uint32` flag words to the real code.

  Core Lean only: linked into `vfdriver`.
-/
import Corerad.Basic
import Corerad.Gen.Plugin
import Corerad.Model.Wild

namespace Corerad.Model.Addresser

open Corerad Corerad.Model

/-- `unix.AF_INET6` -/
def afInet6 : Nat := 10

/-- `unix.IFA_F_TEMPORARY` (= IFA_F_SECONDARY) -/
def ifaFTemporary : Nat := 0x1
/-- `unix.IFA_F_DEPRECATED` -/
def ifaFDeprecated : Nat := 0x20
/-- `unix.IFA_F_TENTATIVE` -/
def ifaFTentative : Nat := 0x40
/-- `unix.IFA_F_MANAGETEMPADDR` -/
def ifaFManageTempAddr : Nat := 0x100
/-- `unix.IFA_F_STABLE_PRIVACY` -/
def ifaFStablePrivacy : Nat := 0x800

/-- `math.MaxUint32` -/
def maxUint32 : Nat := 4294967295

structure AddrMsg where
  isAddr : Bool := true
  family : Nat := 10
  hasAttrs : Bool := true
  ip : IP := {}
  plen : Nat := 64
  flags : Nat := 0
  valid : Nat := 0
  /-- `am.Attributes.Local` (IFA_LOCAL) when the message carries one: for an address configured
      with a peer (`ip addr add A peer B/len`) the kernel sends the peer `B` as IFA_ADDRESS and the
      interface's own address `A` as IFA_LOCAL. The source never looks at it (finding F-28). -/
  loc : Option IP := none
deriving DecidableEq, Repr, Inhabited

/-- `!ok || !ip.Is6() || ip.Is4In6()`, negated -/
def ipOK (ip : IP) : Bool := ip.valid && ip.is6 && !ip.is4In6

/-- the two invariant checks of the loop body, negated: the message does not panic -/
def addrMsgOK (m : AddrMsg) : Bool :=
  (m.isAddr && m.family == afInet6 && m.hasAttrs) && ipOK m.ip

/-- the `IP{…}` literal of the loop body -/
def mkIP (m : AddrMsg) : SysIP :=
  { addr := { addr := m.ip, bits := m.plen }
    deprecated := m.flags &&& ifaFDeprecated != 0
    manageTemp := m.flags &&& ifaFManageTempAddr != 0
    stablePrivacy := m.flags &&& ifaFStablePrivacy != 0
    temporary := m.flags &&& ifaFTemporary != 0
    tentative := m.flags &&& ifaFTentative != 0
    validForever := m.valid == maxUint32 }

/-- one iteration: `none` = panic -/
def decodeAddr (m : AddrMsg) : Option SysIP := if addrMsgOK m then some (mkIP m) else none

/-- the loop: panics at the first offending message -/
def decodeAddrs : List AddrMsg → Option (List SysIP)
  | [] => some []
  | m :: ms =>
    match decodeAddr m with
    | none => none
    | some a => match decodeAddrs ms with
      | none => none
      | some as => some (a :: as)

/-- what a call returned -/
inductive Res (α : Type) where
  /-- `(list, nil)` with a non-empty list -/
  | ok (l : List α)
  /-- `(nil, err)`; `failed` ⇔ `err != nil` -/
  | nil (failed : Bool)
  | panic
deriving DecidableEq, Repr

/-- `AddressesByIndex`: `msgs, err := a.execute(…); if err != nil || len(msgs) == 0 { return nil,
    err }`, then the loop.  `failed` is `err != nil` (the hook may return messages as well). -/
def addressesByIndex (msgs : List AddrMsg) (failed : Bool) : Res SysIP :=
  if failed || msgs.isEmpty then .nil failed
  else match decodeAddrs msgs with
    | none => .panic
    | some as => .ok as

/-! ### routes -/

structure RouteMsg where
  isRoute : Bool := true
  family : Nat := 10
  dst : IP := {}
  dlen : Nat := 64
  oif : Nat := 1
  /-- `rm.Attributes.Pref` (`*uint8`) -/
  pref : Option Nat := none
  /-- the message carries no `RTA_DST` attribute (`len(rm.Attributes.Dst) == 0`): the kernel
      omits it for a route with `dst_len == 0`, i.e. the default route -/
  dstAbsent : Bool := false
deriving DecidableEq, Repr, Inhabited

/-- `system.Route` -/
structure SysRoute where
  pfx : Prefix
  index : Nat
  /-- `ndp.Preference` as an integer -/
  preference : Nat
deriving DecidableEq, Repr, Inhabited

/-- `ndp.Medium` -/
def prefMedium : Nat := 0

def routeMsgOK (m : RouteMsg) : Bool := (m.isRoute && m.family == afInet6) && ipOK m.dst

def mkRoute (m : RouteMsg) : SysRoute :=
  { pfx := { addr := m.dst, bits := m.dlen }, index := m.oif,
    preference := match m.pref with | some p => p | none => prefMedium }

def decodeRoute (m : RouteMsg) : Option SysRoute := if routeMsgOK m then some (mkRoute m) else none

def decodeRoutes : List RouteMsg → Option (List SysRoute)
  | [] => some []
  | m :: ms =>
    match decodeRoute m with
    | none => none
    | some a => match decodeRoutes ms with
      | none => none
      | some as => some (a :: as)

/-- `routesByIndex` -/
def routesByIndex (msgs : List RouteMsg) (failed : Bool) : Res SysRoute :=
  if failed || msgs.isEmpty then .nil failed
  else match decodeRoutes msgs with
    | none => .panic
    | some rs => .ok rs

/-! ### the default route

  The kernel sends no `RTA_DST` for a route whose destination length is 0 (`default`,
  `unreachable default`, …): the destination is then `::`. `handled` records whether the source
  treats such a message so (regenerated: `Gen.Plugin.routeDefaultWithoutDst`); the pinned tree did
  not and ran into its own invariant check (`panicf`) — finding F-18. -/

def v6Unspecified : IP := { valid := true, v4 := false, val := 0 }

/-- what the source makes of the destination before the invariant check -/
def normRoute (handled : Bool) (m : RouteMsg) : RouteMsg :=
  if handled && m.dstAbsent && m.dlen == 0 then { m with dst := v6Unspecified, dstAbsent := false } else m

/-- `routesByIndex` as the source has it -/
def routesByIndexSrc (msgs : List RouteMsg) (failed : Bool) : Res SysRoute :=
  routesByIndex (msgs.map (normRoute Gen.Plugin.routeDefaultWithoutDst)) failed

/-! ### what the plugins make of a dump (composition with Model/Wild.lean)

  `Prefix.Addrs` / `RDNSS.Addrs` are `AddressesByIndex` of the interface, `Route.Routes` is
  `LoopbackRoutes` (the concatenation of `routesByIndex` over the loopback interfaces that are
  up).  `(nil, nil)` is an empty list to the plugin; `(nil, err)` makes `Apply` fail. -/

/-- the address list a plugin sees: `none` = the call failed (or panicked) -/
def addrsSeen : Res SysIP → Option (List SysIP)
  | .ok l => some l
  | .nil false => some []
  | .nil true => none
  | .panic => none

/-- the prefixes `::/64` expands to, given the dump -/
def advertisedPrefixes (msgs : List AddrMsg) (failed : Bool) : Option (List Prefix) :=
  (addrsSeen (addressesByIndex msgs failed)).map (currentPrefixes 64)

/-- the RDNSS server list of a `::` stanza, given the dump (`none`: RA generation fails) -/
def advertisedRDNSS (static : List IP) (msgs : List AddrMsg) (failed : Bool) : Option (List IP) :=
  applyRDNSS true static (addrsSeen (addressesByIndex msgs failed))

def routesSeen : Res SysRoute → Option (List Prefix)
  | .ok l => some (l.map (·.pfx))
  | .nil false => some []
  | .nil true => none
  | .panic => none

/-- the routes `::/0` expands to, given the dump of one loopback interface -/
def advertisedRoutes (msgs : List RouteMsg) (failed : Bool) : Option (List Prefix) :=
  (routesSeen (routesByIndex msgs failed)).map currentRoutes

end Corerad.Model.Addresser
