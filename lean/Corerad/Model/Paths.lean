/-
  Model of "every path that generates an RA reads the live forwarding state" (C04, history
  form): a state machine over forwarding flips and RA generations on the seven paths.  Every
  generation calls `buildRA` / `constScrape` / the API handler, each of which reads
  `State.IPv6Forwarding` at that moment (extracted call-site facts), then
  `Interface.RouterAdvertisement(forwarding)`.
-/
import Corerad.Basic

namespace Corerad.Model.Paths

open Corerad

inductive Path where
  | initial | periodic | solicited | final | verify | scrape | api
deriving DecidableEq, Repr, Inhabited

inductive Op where
  | setFw (iface : Nat) (b : Bool)
  | gen (iface : Nat) (p : Path)
deriving DecidableEq, Repr, Inhabited

/-- what a generation yields: the RA's router lifetime and whether the
    `interface_not_forwarding` misconfiguration is reported -/
structure Obs where
  iface : Nat
  path : Path
  lifetime : Dur
  misconfig : Bool
deriving DecidableEq, Repr, Inhabited

/-- the lifetime the configuration asks for on a path (`shutdown` sends a copy with lifetime 0) -/
def cfgLifetime (cfg : Nat → Dur) (iface : Nat) (p : Path) : Dur :=
  if p = .final then 0 else cfg iface

/-- one generation with forwarding value `fw` -/
def generate (cfg : Nat → Dur) (fw : Bool) (iface : Nat) (p : Path) : Obs :=
  let lt := cfgLifetime cfg iface p
  if lt > 0 ∧ !fw then { iface := iface, path := p, lifetime := 0, misconfig := true }
  else { iface := iface, path := p, lifetime := lt, misconfig := false }

def setAt (f : Nat → Bool) (i : Nat) (b : Bool) : Nat → Bool := fun j => if j = i then b else f j

def runOps (cfg : Nat → Dur) : (Nat → Bool) → List Op → List Obs
  | _, [] => []
  | fw, .setFw i b :: rest => runOps cfg (setAt fw i b) rest
  | fw, .gen i p :: rest => generate cfg (fw i) i p :: runOps cfg fw rest

end Corerad.Model.Paths
