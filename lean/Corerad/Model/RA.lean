/-
  Router advertisements as CoreRAD builds them (`ndp.RouterAdvertisement` restricted to the
  fields and option kinds CoreRAD can produce), parsed plugins, and
  `config.Interface.RouterAdvertisement` (internal/config/config.go) with the plugins'
  `Apply` methods (internal/plugin/plugin.go).

  Strings whose content is irrelevant to the logic (interface names, DNS search domains,
  captive-portal URIs) are interned by the harness and appear as `Nat` ids; a URI also
  carries its byte length because encodability depends on it.
-/
import Corerad.Basic
import Corerad.Model.Wild
import Corerad.Model.Lifetime

namespace Corerad.Model

open Corerad

/-- `ndp.Preference` wire values: Medium = 0, High = 1, (2 reserved), Low = 3. -/
def prefMedium : Nat := 0
def prefHigh : Nat := 1
def prefLow : Nat := 3

/-- an NDP option CoreRAD can advertise -/
inductive Opt where
  | pi (addr : IP) (len : Nat) (onLink autonomous : Bool) (valid preferred : Dur)
  | ri (addr : IP) (len : Nat) (preference : Nat) (lifetime : Dur)
  | rdnss (lifetime : Dur) (servers : List IP)
  | dnssl (lifetime : Dur) (names : List Nat)
  | mtu (mtu : Int)
  | lla (macLen : Nat) (mac : Nat)
  | captivePortal (uri : Nat) (uriLen : Nat)
  | pref64 (pfx : Prefix) (lifetime : Dur)
deriving DecidableEq, Repr, Inhabited

structure RA where
  hopLimit : Nat := 0
  managed : Bool := false
  other : Bool := false
  preference : Nat := 0
  routerLifetime : Dur := 0
  reachable : Dur := 0
  retransmit : Dur := 0
  options : List Opt := []
deriving DecidableEq, Repr, Inhabited

/-- a parsed plugin (`plugin.Plugin` implementations with their configuration fields) -/
inductive Plugin where
  | pfx (auto : Bool) (p : Prefix) (onLink autonomous : Bool) (valid preferred : Dur) (deprecated : Bool)
  | route (auto : Bool) (p : Prefix) (preference : Nat) (lifetime : Dur) (deprecated : Bool)
  | rdnss (auto : Bool) (lifetime : Dur) (servers : List IP)
  | dnssl (lifetime : Dur) (names : List Nat)
  | mtu (mtu : Int)
  | lla
  | captivePortal (uri : Nat) (uriLen : Nat)
  | pref64 (p : Prefix) (lifetime : Dur)
deriving DecidableEq, Repr, Inhabited

/-- rank of a plugin kind in the documented option order -/
def Plugin.kind : Plugin → Nat
  | .pfx .. => 0 | .route .. => 1 | .rdnss .. => 2 | .dnssl .. => 3
  | .mtu .. => 4 | .lla => 5 | .captivePortal .. => 6 | .pref64 .. => 7

/-- `config.Interface` -/
structure Interface where
  name : Nat := 0
  monitor : Bool := false
  advertise : Bool := false
  verbose : Bool := false
  minInterval : Dur := 0
  maxInterval : Dur := 0
  managed : Bool := false
  otherConfig : Bool := false
  reachable : Dur := 0
  retransmit : Dur := 0
  hopLimit : Nat := 0
  defaultLifetime : Dur := 0
  unicastOnly : Bool := false
  preference : Nat := 0
  plugins : List Plugin := []
deriving DecidableEq, Repr, Inhabited

/-- The system state an RA build reads: interface addresses and loopback routes (`none` = the
    source failed), hardware address (`none` = nil, as on point-to-point links), the clock,
    and the daemon's epoch. -/
structure SysState where
  addrs : Option (List SysIP) := some []
  routes : Option (List Prefix) := some []
  mac : Option (Nat × Nat) := none      -- (length in bytes, value)
  now : Time := 0
  epoch : Time := 0
deriving Repr, Inhabited

/-- the hardware address as the `source_lla` plugin sees it: the Source Link-Layer Address option
    can only carry a 48-bit address (`ndp.LinkLayerAddress` encodes nothing else), so an interface
    whose hardware address has another length (IP-in-IP and GRE tunnels: 4 or 16 bytes, IPoIB: 20,
    IEEE 1394 / 802.15.4: 8) is, for that plugin, an interface without one. `handled` records
    whether the source treats it so (regenerated: `Gen.Plugin.llaRequiresEthernet`); the pinned
    tree appended the option regardless and no RA could be encoded — finding F-19. -/
def normSys (handled : Bool) (sys : SysState) : SysState :=
  if handled then { sys with mac := sys.mac.filter (fun p => p.1 == 6) } else sys

/-- `Plugin.Apply`: the options appended to the RA, or `none` when Apply returns an error. -/
def Plugin.apply (sys : SysState) : Plugin → Option (List Opt)
  | .pfx auto p onLink autonomous valid pref dep =>
    let (v, pr) := prefixLifetimes dep sys.epoch valid pref sys.now
    if !auto then some [.pi p.addr p.bits onLink autonomous v pr]
    else match sys.addrs with
      | none => none
      | some as => some ((currentPrefixes p.bits as).map fun q => .pi q.addr q.bits onLink autonomous v pr)
  | .route auto p preference lifetime dep =>
    let lt := routeLifetime dep sys.epoch lifetime sys.now
    if !auto then some [.ri p.addr p.bits preference lt]
    else match sys.routes with
      | none => none
      | some rs => some ((currentRoutes rs).map fun q => .ri q.addr q.bits preference lt)
  | .rdnss auto lifetime servers =>
    (applyRDNSS auto servers sys.addrs).map fun s => [.rdnss lifetime s]
  | .dnssl lifetime names => some [.dnssl lifetime names]
  | .mtu m => some [.mtu m]
  | .lla => match sys.mac with
    | none => some []
    | some (len, mac) => some [.lla len mac]
  | .captivePortal uri len => some [.captivePortal uri len]
  | .pref64 p lifetime => some [.pref64 p lifetime]

/-- left fold of `Apply` over the plugins, stopping at the first error -/
def applyAll (sys : SysState) : List Plugin → Option (List Opt)
  | [] => some []
  | p :: ps => match p.apply sys with
    | none => none
    | some os => match applyAll sys ps with
      | none => none
      | some rest => some (os ++ rest)

/-- `Interface.RouterAdvertisement(forwarding)`: the RA and whether the
    `InterfaceNotForwarding` misconfiguration is reported; `none` = error. -/
def routerAdvertisement (ifi : Interface) (sys : SysState) (forwarding : Bool) : Option (RA × Bool) :=
  match applyAll sys ifi.plugins with
  | none => none
  | some opts =>
    let ra : RA := {
      hopLimit := ifi.hopLimit, managed := ifi.managed, other := ifi.otherConfig,
      preference := ifi.preference, routerLifetime := ifi.defaultLifetime,
      reachable := ifi.reachable, retransmit := ifi.retransmit, options := opts }
    if ra.routerLifetime > 0 ∧ !forwarding then some ({ ra with routerLifetime := 0 }, true)
    else some (ra, false)

end Corerad.Model
