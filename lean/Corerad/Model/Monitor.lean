/-
  Model of the monitor's metrics (internal/corerad/monitor.go `(*Monitor).handle`,
  metrics.go `Mon*` series, listener.go zone stripping).

  `monitorHandle` transcribes `handle` statement by statement into the list of metric
  operations it performs, in program order.  Abstractions:

  * A sender (`host` / `router` label) is a `Nat`: the 128-bit value of the *zone-free*
    sender address.  The listener clears the zone with `host.WithZone("")` before the
    callback fires (listener.go), so `handle` only ever sees zone-free hosts; the
    correspondence harness drives part of its cases through the real `Listen` loop with
    zoned senders to tie this.
  * The `interface` label is the monitor's own constant `m.iface` in every call; it is not
    carried in the model (the harness rejects any series whose interface label differs).
  * A `prefix` label is the structured value `PLabel` = what `cidrStr(p.Prefix, p.PrefixLength)`
    = `netip.PrefixFrom(addr, len).String()` (metrics.go) renders:
      - `PLabel.cidr addr len`, the text `addr/len`, when `len ≤ 128` (`netip.Prefix.String` is
        trusted to be injective on (16-byte address, length ≤ 128));
      - `PLabel.invalid`, the one literal text `invalid Prefix`, when `len > 128`:
        `netip.PrefixFrom` returns the invalid prefix for a length out of range and
        `Prefix.String` prints that literal, whatever the address.  A Prefix Information option
        with length byte 129..255 is *not* rejected by `ndp` v1.1.0 (`ParseMessage` succeeds and
        yields `PrefixLength = that byte`, `Prefix = netip.Addr{}`, because
        `PrefixFrom(ip, len).Masked()` of an invalid prefix is the zero prefix), so any on-link
        host can make the monitor take this branch.  Consequence, modelled as is: all such
        options of one router share one label, and the last one written wins.
    `PI.addr` is the 128-bit value of `p.Prefix`; for the zero `netip.Addr{}` (which the decoder
    produces exactly when the length is > 128, where the address is irrelevant) it is 0.
    A Go-built `PrefixInformation` with the zero address and a length ≤ 128, or a 4-byte
    address, cannot come from the decoder and is outside the model.
  * A message is an RA (header + options) or any other NDP message, identified by its
    ICMPv6 type (133 RS, 135 NS, 136 NA, …).  Of the options only Prefix Information
    matters (`pick[*ndp.PrefixInformation]`); all other options are `Opt.other code`.
  * `float64(now.Add(lt).Unix())` is `⌊(now + lt) / 1 s⌋` with `now` as UnixNano:
    `Time.Unix()` floors toward −∞ (the nanosecond field of a `time.Time` is kept in
    [0, 10⁹)), `Int` division by a positive literal is floor division.  The harness keeps
    receipt times ≥ 0; `time.Time` range limits are outside the model.
  * Store semantics are those of `metricslite`: a counter adds to the sample of its label
    tuple (absent = 0), a gauge overwrites it.

  Everything lives in namespace `Corerad.Model.Monitor` (other models have their own `RA`/`Opt`).

  Core Lean only: linked into `vfdriver`.
-/
import Corerad.Basic
import Corerad.Model.ListUtil

namespace Corerad.Model.Monitor

open Corerad

/-- `ndp.PrefixInformation` (fields read by `handle`). -/
structure PI where
  addr : Nat
  len : Nat
  onLink : Bool
  autonomous : Bool
  preferred : Dur
  valid : Dur
deriving DecidableEq, Repr

/-- The `prefix` label: what `cidrStr` renders. -/
inductive PLabel where
  /-- `addr/len` (only ever produced with `len ≤ 128`) -/
  | cidr (addr len : Nat)
  /-- the literal `invalid Prefix` -/
  | invalid
deriving DecidableEq, Repr

/-- `cidrStr(p.Prefix, p.PrefixLength)`; 128 is the largest length `netip.PrefixFrom` accepts
    for a 16-byte address -/
def PI.label (p : PI) : PLabel :=
  if p.len ≤ 128 then .cidr p.addr p.len else .invalid

/-- a length byte no IPv6 prefix can have (129..255 on the wire) -/
def PI.malformed (p : PI) : Bool := decide (128 < p.len)

/-- An RA option: Prefix Information, or anything else (by option type; ignored). -/
inductive Opt where
  | pi (p : PI)
  | other (code : Nat)
deriving DecidableEq, Repr

/-- `ndp.RouterAdvertisement` (fields read by `handle`). -/
structure RA where
  managed : Bool
  other : Bool
  routerLifetime : Dur
  options : List Opt
deriving DecidableEq, Repr

/-- ICMPv6 type of a router advertisement (`ipv6.ICMPTypeRouterAdvertisement`). -/
def raType : Nat := 134

/-- An NDP message as `handle` sees it. -/
inductive Msg where
  | ra (r : RA)
  | other (typ : Nat)
deriving DecidableEq, Repr

/-- `msg.Type()` -/
def Msg.typ : Msg → Nat
  | .ra _ => raType
  | .other t => t

/-- A time series of the monitor: metric together with its label tuple (without the constant
    `interface` label). -/
inductive Series where
  /-- `corerad_monitor_messages_received_total{host, message}` -/
  | received (host typ : Nat)
  /-- `corerad_monitor_flag_managed{router}` -/
  | flagManaged (router : Nat)
  /-- `corerad_monitor_flag_other{router}` -/
  | flagOther (router : Nat)
  /-- `corerad_monitor_default_route_expiration_timestamp_seconds{router}` -/
  | defaultRoute (router : Nat)
  /-- `corerad_monitor_prefix_autonomous{prefix, router}` -/
  | prefixAutonomous (pl : PLabel) (router : Nat)
  /-- `corerad_monitor_prefix_on_link{prefix, router}` -/
  | prefixOnLink (pl : PLabel) (router : Nat)
  /-- `corerad_monitor_prefix_preferred_expiration_timestamp_seconds{prefix, router}` -/
  | prefixPreferred (pl : PLabel) (router : Nat)
  /-- `corerad_monitor_prefix_valid_expiration_timestamp_seconds{prefix, router}` -/
  | prefixValid (pl : PLabel) (router : Nat)
deriving DecidableEq, Repr

/-- One call on `cctx.mm`: a counter `Add` or a gauge `Set`. -/
inductive MetricOp where
  | inc (s : Series) (v : Int)
  | set (s : Series) (v : Int)
deriving DecidableEq, Repr

def MetricOp.key : MetricOp → Series
  | .inc s _ => s
  | .set s _ => s

/-- `boolFloat` -/
def b2i (b : Bool) : Int := if b then 1 else 0

/-- `t.Unix()` for `t` in UnixNano: floor division by one second. -/
def unixSec (t : Time) : Int := t / 1000000000

/-- `pick[*ndp.PrefixInformation](options)` -/
def pickPI : List Opt → List PI
  | [] => []
  | .pi p :: r => p :: pickPI r
  | .other _ :: r => pickPI r

/-- Body of the `for _, p := range pick[…]` loop (`str := cidrStr(p.Prefix, p.PrefixLength)` is
    `p.label`). -/
def prefixOps (host : Nat) (now : Time) (p : PI) : List MetricOp :=
  [ .set (.prefixAutonomous p.label host) (b2i p.autonomous),
    .set (.prefixOnLink p.label host) (b2i p.onLink),
    .set (.prefixPreferred p.label host) (unixSec (now + p.preferred)),
    .set (.prefixValid p.label host) (unixSec (now + p.valid)) ]

/-- The RA branch of the type switch. -/
def raOps (ra : RA) (host : Nat) (now : Time) : List MetricOp :=
  [ .set (.flagManaged host) (b2i ra.managed),
    .set (.flagOther host) (b2i ra.other) ] ++
  (if ra.routerLifetime ≠ 0 then
    [ .set (.defaultRoute host) (unixSec (now + ra.routerLifetime)) ]
   else []) ++
  (pickPI ra.options).flatMap (prefixOps host now)

/-- `(*Monitor).handle(msg, host)` with `m.now() = now`: the metric operations, in order. -/
def monitorHandle (msg : Msg) (host : Nat) (now : Time) : List MetricOp :=
  .inc (.received host msg.typ) 1 ::
  match msg with
  | .ra ra => raOps ra host now
  | .other _ => []

/-! ### The store (`metricslite.Memory`) -/

/-- sample per series; `none` = the label tuple has never been written -/
abbrev Store := Series → Option Int

def Store.empty : Store := fun _ => none

/-- `sampleMap.Add` (a missing Go map entry reads as 0) / `sampleMap.Set`. -/
def Store.apply (st : Store) : MetricOp → Store
  | .inc s v => fun k => if k = s then some ((st k).getD 0 + v) else st k
  | .set s v => fun k => if k = s then some v else st k

def run (st : Store) (ops : List MetricOp) : Store := ops.foldl Store.apply st

/-- One delivered message: what, from whom (zone-free), when (`m.now()`, UnixNano). -/
structure Event where
  msg : Msg
  host : Nat
  now : Time
deriving DecidableEq, Repr

def opsOf (evs : List Event) : List MetricOp :=
  evs.flatMap fun e => monitorHandle e.msg e.host e.now

/-- the store after the whole sequence, starting from a fresh registry -/
def finalStore (evs : List Event) : Store := run Store.empty (opsOf evs)

/-- every series written at least once, with its final value (first-written order) -/
def observe (evs : List Event) : List (Series × Int) :=
  (dedupe ((opsOf evs).map MetricOp.key)).filterMap fun s =>
    match finalStore evs s with
    | some v => some (s, v)
    | none => none

/-! ### Canonical order of the output (shared with the harness)

  Lexicographic on (metric index, host, message type, prefix address, prefix length), encoded
  into one `Nat`; the encoding is order-preserving for message types and lengths below 2¹⁶ and
  addresses below 2¹²⁸, which is all the harness generates.  It only fixes the print order.

  Token form of a `prefix` label: `addr len` with `len ≤ 128` for `addr/len`; the pair
  `0 256` (256 is no length byte) for the literal `invalid Prefix`. -/

/-- `len` token of the `invalid Prefix` label -/
def invalidLenTok : Nat := 256

def PLabel.toks : PLabel → Nat × Nat
  | .cidr a l => (a, l)
  | .invalid => (0, invalidLenTok)

def PLabel.ofToks (a l : Nat) : Option PLabel :=
  if l ≤ 128 then some (.cidr a l)
  else if a = 0 ∧ l = invalidLenTok then some .invalid
  else none

def Series.fields : Series → Nat × Nat × Nat × Nat × Nat
  | .received h t => (0, h, t, 0, 0)
  | .flagManaged h => (1, h, 0, 0, 0)
  | .flagOther h => (2, h, 0, 0, 0)
  | .defaultRoute h => (3, h, 0, 0, 0)
  | .prefixAutonomous pl h => (4, h, 0, pl.toks.1, pl.toks.2)
  | .prefixOnLink pl h => (5, h, 0, pl.toks.1, pl.toks.2)
  | .prefixPreferred pl h => (6, h, 0, pl.toks.1, pl.toks.2)
  | .prefixValid pl h => (7, h, 0, pl.toks.1, pl.toks.2)

def Series.ofFields : Nat × Nat × Nat × Nat × Nat → Option Series
  | (0, h, t, 0, 0) => some (.received h t)
  | (1, h, 0, 0, 0) => some (.flagManaged h)
  | (2, h, 0, 0, 0) => some (.flagOther h)
  | (3, h, 0, 0, 0) => some (.defaultRoute h)
  | (4, h, 0, a, l) => (PLabel.ofToks a l).map (.prefixAutonomous · h)
  | (5, h, 0, a, l) => (PLabel.ofToks a l).map (.prefixOnLink · h)
  | (6, h, 0, a, l) => (PLabel.ofToks a l).map (.prefixPreferred · h)
  | (7, h, 0, a, l) => (PLabel.ofToks a l).map (.prefixValid · h)
  | _ => none

def Series.sortKey (s : Series) : Nat :=
  let (m, h, t, a, l) := s.fields
  (((m * 2^128 + h) * 2^16 + t) * 2^128 + a) * 2^16 + l

def canonical (obs : List (Series × Int)) : List (Series × Int) :=
  sortBy (fun x => x.1.sortKey) obs

end Corerad.Model.Monitor
