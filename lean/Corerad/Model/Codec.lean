/-
  Field-level model of the RA wire codec (mdlayher/ndp `RouterAdvertisement.MarshalBinary` /
  `UnmarshalBinary` and the option codecs), restricted to what C03 needs: every duration field
  is written as an unsigned integer count of its unit in a field of fixed width and read back
  as that count times the unit; the small integer fields are written modulo their width;
  everything else is copied.

      field                          unit     width
      router lifetime                1 s      16
      reachable time, retrans timer  1 ms     32
      PI valid / preferred           1 s      32
      RI lifetime                    1 s      32
      RDNSS / DNSSL lifetime         1 s      32
      PREF64 scaled lifetime         8 s      13
      current hop limit              —         8
      router preference              —         2
      MTU                            —        32
-/
import Corerad.Model.RA

namespace Corerad.Model

open Corerad

/-- write a duration as a count of `unit` in a `bits`-bit unsigned field (silently wrapping,
    as the Go conversions `uint16(d.Seconds())`, `uint32(d / time.Millisecond)` … do) -/
def encodeDur (d unit : Dur) (bits : Nat) : Nat := (d / unit).toNat % 2^bits

/-- read a count of `unit` back as a duration -/
def decodeDur (n : Nat) (unit : Dur) : Dur := n * unit

/-- an option as it is on the wire: durations are unsigned counts of their unit -/
inductive WOpt where
  | pi (addr : IP) (len : Nat) (onLink autonomous : Bool) (valid preferred : Nat)
  | ri (addr : IP) (len : Nat) (preference : Nat) (lifetime : Nat)
  | rdnss (lifetime : Nat) (servers : List IP)
  | dnssl (lifetime : Nat) (names : List Nat)
  | mtu (mtu : Nat)
  | lla (macLen : Nat) (mac : Nat)
  | captivePortal (uri : Nat) (uriLen : Nat)
  | pref64 (pfx : Prefix) (scaled : Nat)
deriving DecidableEq, Repr, Inhabited

/-- an RA as it is on the wire -/
structure WRA where
  hopLimit : Nat := 0
  managed : Bool := false
  other : Bool := false
  preference : Nat := 0
  routerLifetime : Nat := 0      -- seconds, 16 bits
  reachable : Nat := 0           -- milliseconds, 32 bits
  retransmit : Nat := 0          -- milliseconds, 32 bits
  options : List WOpt := []
deriving DecidableEq, Repr, Inhabited

def encodeOpt : Opt → WOpt
  | .pi a len ol au v p => .pi a len ol au (encodeDur v second 32) (encodeDur p second 32)
  | .ri a len pref l => .ri a len pref (encodeDur l second 32)
  | .rdnss l s => .rdnss (encodeDur l second 32) s
  | .dnssl l n => .dnssl (encodeDur l second 32) n
  | .mtu m => .mtu (m.toNat % 2^32)
  | .lla len mac => .lla len mac
  | .captivePortal u len => .captivePortal u len
  | .pref64 p l => .pref64 p (encodeDur l (8 * second) 13)

def decodeOpt : WOpt → Opt
  | .pi a len ol au v p => .pi a len ol au (decodeDur v second) (decodeDur p second)
  | .ri a len pref l => .ri a len pref (decodeDur l second)
  | .rdnss l s => .rdnss (decodeDur l second) s
  | .dnssl l n => .dnssl (decodeDur l second) n
  | .mtu m => .mtu m
  | .lla len mac => .lla len mac
  | .captivePortal u len => .captivePortal u len
  | .pref64 p l => .pref64 p (decodeDur l (8 * second))

def encodeFields (ra : RA) : WRA :=
  { hopLimit := ra.hopLimit % 2^8, managed := ra.managed, other := ra.other,
    preference := ra.preference % 2^2,
    routerLifetime := encodeDur ra.routerLifetime second 16,
    reachable := encodeDur ra.reachable ms 32, retransmit := encodeDur ra.retransmit ms 32,
    options := ra.options.map encodeOpt }

def decodeFields (w : WRA) : RA :=
  { hopLimit := w.hopLimit, managed := w.managed, other := w.other, preference := w.preference,
    routerLifetime := decodeDur w.routerLifetime second,
    reachable := decodeDur w.reachable ms, retransmit := decodeDur w.retransmit ms,
    options := w.options.map decodeOpt }

end Corerad.Model
