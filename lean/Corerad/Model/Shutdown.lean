/-
  Model of stopping an advertiser (internal/corerad/advertise.go: the cancel branch of
  `schedule`, `advertise`'s `eg.Wait`, `Run`'s call to `shutdown`): a labelled transition
  system over the *observable* events of a run — transmissions beginning and ending on the
  connection, the cancellation, the final RA, `Run` returning.  Any number of in-flight
  transmissions, any latencies.

  `awaits` = does the scheduler wait for in-flight transmissions before it returns on
  cancellation (`Gen.Advertise.shutdownAwaitsInflight`, extracted from the source) — the
  repair of F-5.
-/
import Corerad.Basic
import Corerad.Gen.Advertise

namespace Corerad.Model

inductive ShEv where
  | writeBegin     -- a scheduled (non-final) transmission starts
  | writeEnd       -- …and completes (successfully or not)
  | cancel         -- the server cancels the task's context
  | finalBegin     -- the zero-lifetime RA starts
  | finalEnd
  | runReturn      -- Advertiser.Run returns (nil)
deriving DecidableEq, Repr, Inhabited

structure ShState where
  terminate : Bool
  cancelled : Bool := false
  inflight : Nat := 0
  /-- 0 = final RA not started, 1 = being written, 2 = written -/
  final : Nat := 0
  returned : Bool := false
deriving DecidableEq, Repr, Inhabited

def shStep (awaits : Bool) (s : ShState) : ShEv → Option ShState
  | .writeBegin =>
    -- workers start transmissions until the scheduler has returned (its gate is closed);
    -- the final RA and Run's return both come after that
    if s.final = 0 ∧ !s.returned then some { s with inflight := s.inflight + 1 } else none
  | .writeEnd => if 0 < s.inflight then some { s with inflight := s.inflight - 1 } else none
  | .cancel => if !s.cancelled ∧ !s.returned then some { s with cancelled := true } else none
  | .finalBegin =>
    if s.cancelled ∧ s.terminate ∧ s.final = 0 ∧ !s.returned ∧ (awaits → s.inflight = 0) then
      some { s with final := 1 }
    else none
  | .finalEnd => if s.final = 1 then some { s with final := 2 } else none
  | .runReturn =>
    if s.cancelled ∧ !s.returned ∧ (awaits → s.inflight = 0) ∧ s.final = (if s.terminate then 2 else 0) then
      some { s with returned := true }
    else none

def shRun (awaits : Bool) : ShState → List ShEv → Option ShState
  | s, [] => some s
  | s, e :: es => match shStep awaits s e with
    | none => none
    | some s' => shRun awaits s' es

def shAccepts (awaits : Bool) (terminate : Bool) (tr : List ShEv) : Bool :=
  (shRun awaits { terminate := terminate } tr).isSome

end Corerad.Model
