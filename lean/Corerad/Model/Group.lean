/-
  Model of the goroutine group of one interface task (internal/corerad: `advertise()` /
  `monitor()`, `(*listener).Listen`, `linkStateWatcher`) as a labelled transition system over
  control states — which goroutine has returned, which context is cancelled — for the question
  "does every failure tear the whole group down?".

  `cbw` ("cancel before wait") is the order of `Listen`'s deferred calls, extracted from the
  source (`Gen.Listener.cancelBeforeWait`): the repair of F-7.
-/
import Corerad.Basic
import Corerad.Gen.Listener

namespace Corerad.Model.Group

/-- program counter of `Listen`'s main goroutine -/
inductive LPc where
  | reading      -- in the receive loop (possibly blocked in ReadFrom)
  | errPath      -- the loop returned an error; deferred calls not yet run
  | errWait      -- deferred: waiting for the interrupt goroutine (eg.Wait)
  | cancelWait   -- context cancelled: `return eg.Wait()`
  | done         -- Listen has returned
deriving DecidableEq, Repr, Inhabited

structure St where
  parent : Bool := false   -- the Dialer's context (server shutdown) is cancelled
  eg : Bool := false       -- the errgroup's context is cancelled (some goroutine returned an error)
  lctx : Bool := false     -- Listen's own cancel() has run
  dl : Bool := false       -- the read deadline has been forced (pending reads time out)
  l : LPc := .reading
  i : Bool := false        -- interrupt goroutine returned
  s : Bool := false        -- scheduler returned        (advertiser only; `true` from the start for a monitor)
  m : Bool := false        -- multicast loop returned   (advertiser only, not unicast-only)
  w : Bool := false        -- link-state watcher returned
  ret : Bool := false      -- the group has returned (advertise()/monitor() returned to Run)
deriving DecidableEq, Repr, Inhabited

def St.ctxDone (x : St) : Bool := x.parent || x.eg

inductive Ev where
  -- environment (observable)
  | cancelParent | readErr | linkChange | writeErr
  -- internal
  | iRun | lSeeCancel | lCancelWaitDone | lErrDefer | lErrWaitDone | sRet | mRet | wRet
  -- observable
  | groupReturn
deriving DecidableEq, Repr, Inhabited

def step (cbw : Bool) (x : St) : Ev → Option St
  | .cancelParent => if !x.parent then some { x with parent := true } else none
  | .readErr =>      -- a read error, a handler error, or exhausted receive retries
    if x.l = .reading ∧ !x.ctxDone then some { x with l := .errPath } else none
  | .linkChange =>   -- the watcher goroutine returns ErrLinkChange: the errgroup cancels its context
    if !x.w ∧ !x.ctxDone then some { x with w := true, eg := true } else none
  | .writeErr =>     -- the scheduler returns a transmit error
    if !x.s ∧ !x.ctxDone then some { x with s := true, eg := true } else none
  | .iRun =>         -- interrupt goroutine: <-ctx.Done(); SetReadDeadline(past); return
    if !x.i ∧ (x.ctxDone || x.lctx) then some { x with i := true, dl := true } else none
  | .lSeeCancel =>   -- the (unblocked) read fails and ctx.Err() != nil
    if x.l = .reading ∧ x.ctxDone ∧ x.dl then some { x with l := .cancelWait } else none
  | .lCancelWaitDone => if x.l = .cancelWait ∧ x.i then some { x with l := .done } else none
  | .lErrDefer =>    -- deferred calls start: cancel() first iff `cbw`
    if x.l = .errPath then some { x with l := .errWait, lctx := x.lctx || cbw } else none
  | .lErrWaitDone => -- Listen returns its error: the errgroup cancels its context
    if x.l = .errWait ∧ x.i then some { x with l := .done, eg := true } else none
  | .sRet => if !x.s ∧ x.ctxDone then some { x with s := true } else none
  | .mRet => if !x.m ∧ x.ctxDone then some { x with m := true } else none
  | .wRet => if !x.w ∧ x.ctxDone then some { x with w := true } else none
  | .groupReturn =>
    if x.l = .done ∧ x.i ∧ x.s ∧ x.m ∧ x.w ∧ !x.ret then some { x with ret := true } else none

def internal : List Ev :=
  [.iRun, .lSeeCancel, .lCancelWaitDone, .lErrDefer, .lErrWaitDone, .sRet, .mRet, .wRet, .groupReturn]

/-- no internal step (and no return) is possible: the task stays as it is until the
    environment acts -/
def quiescent (cbw : Bool) (x : St) : Bool := internal.all fun e => (step cbw x e).isNone

/-- something has gone wrong or the task was asked to stop -/
def triggered (x : St) : Bool := x.parent || x.eg || x.l != .reading

def run (cbw : Bool) : St → List Ev → Option St
  | x, [] => some x
  | x, e :: es => match step cbw x e with
    | none => none
    | some y => run cbw y es

/-- initial state of an advertiser (`monitor := false`) or a monitor's group -/
def init (monitor unicastOnly : Bool) : St := { s := monitor, m := monitor || unicastOnly }

/-- number of internal steps still possible at most (termination measure) -/
def work (x : St) : Nat :=
  (if x.i then 0 else 1) + (if x.s then 0 else 1) + (if x.m then 0 else 1) + (if x.w then 0 else 1) +
  (if x.ret then 0 else 1) +
  (match x.l with | .reading => 4 | .errPath => 3 | .errWait => 2 | .cancelWait => 2 | .done => 0)

end Corerad.Model.Group
