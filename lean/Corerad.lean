-- Root of the library: every model, spec and property module.
import Corerad.Basic
import Corerad.Props.C05
import Corerad.Props.C16
