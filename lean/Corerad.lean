-- Root of the library: every model, spec and property module.
import Corerad.Basic
import Corerad.Props.C02
import Corerad.Props.C05
import Corerad.Props.C06
import Corerad.Props.C07
import Corerad.Props.C09
import Corerad.Props.C12
import Corerad.Props.C13
import Corerad.Props.C14
import Corerad.Props.C15
import Corerad.Props.C16
import Corerad.Props.C18
import Corerad.Props.C19
import Corerad.Props.C20
