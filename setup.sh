#!/bin/sh
# MANIFEST.setup_cmd: build the framework from files on disk only (offline).
set -e
cd "$(dirname "$0")"
export GOPROXY=off GOSUMDB=off GOTOOLCHAIN=local
GO=$(command -v go1.26 || command -v go1.26.8 || command -v go)
mkdir -p evidence replays
# 1. fact extractor -> Corerad/Gen/*.lean
(cd tools/extract && GOFLAGS=-mod=mod "$GO" build -o /var/tmp/verif-extract-setup . )
/var/tmp/verif-extract-setup -repo "${VERIF_REPO:-/repo}" -out lean/Corerad/Gen
rm -f /var/tmp/verif-extract-setup
# 2. model, proofs, driver
(cd lean && lake build Corerad vfdriver)
# 3. warm the Go build cache for the harness packages
python3 - <<'PY'
import json, os, subprocess, tempfile, shutil, sys
sys.path.insert(0, "lib")
verif = os.getcwd(); repo = os.environ.get("VERIF_REPO", "/repo")
go = shutil.which("go1.26") or shutil.which("go1.26.8") or "go"
ov = {"Replace": {}}
for pkg in sorted(os.listdir("harness")):
    d = os.path.join(verif, "harness", pkg)
    if os.path.isdir(d):
        for f in sorted(os.listdir(d)):
            if f.endswith(".go"):
                ov["Replace"][os.path.join(repo, "internal", pkg, f)] = os.path.join(d, f)
tmp = tempfile.mkdtemp(dir="/var/tmp")
json.dump(ov, open(os.path.join(tmp, "ov.json"), "w"))
env = dict(os.environ, GOFLAGS="", CGO_ENABLED="0")
pkgs = [p for p in sorted(os.listdir("harness")) if p != "vfh" and any(f.endswith("_test.go") for f in os.listdir(os.path.join("harness", p)))]
for p in pkgs:
    r = subprocess.run([go, "test", "-c", "-vet=off", "-tags", "verif", "-overlay", os.path.join(tmp, "ov.json"),
                        "-o", os.path.join(tmp, p + ".test"), "./internal/" + p], cwd=repo, env=env)
    if r.returncode != 0:
        print("setup: warning: harness for", p, "did not build", file=sys.stderr)
shutil.rmtree(tmp, ignore_errors=True)
PY
echo "setup ok"
